#!/usr/bin/env python3
"""Fills seeded/<id>/meta.json 'results' from sensitivity/results_seeded.json (written by tools/lab.py)."""
import json, glob, os
res = json.load(open('/verif/sensitivity/results_seeded.json'))
for d in sorted(glob.glob('/verif/seeded/*')):
    sid = os.path.basename(d)
    r = res.get('seeded-' + sid)
    if not r or not r.get('props'):
        continue
    m = json.load(open(f'{d}/meta.json'))
    out = {}
    for p, v in r['props'].items():
        if v['rc'] == 1:
            reason = next((l for l in v['lines'] if l.startswith('reason')), '')
            out[p] = f'caught by ./check {p} quick ({reason[:260]})'
        elif v['rc'] == 0:
            out[p] = f'NOT caught by ./check {p} quick (seed 1)'
        else:
            out[p] = f'inconclusive: rc={v["rc"]}'
    m['results'] = out
    m['checks_run'] = 'tools/lab.py (scratch worktree of /repo with patch.diff applied + scratch copy of the harness; ./check <prop> quick, VERIF_SEED=1)'
    json.dump(m, open(f'{d}/meta.json', 'w'), indent=1)
print('updated')

#!/usr/bin/env python3
"""Writes /verif/sensitivity/MATRIX.md from the lab results (fix reverts, hand mutants, seeded mutants)."""
import json, os
def load(p):
    return json.load(open(p)) if os.path.exists(p) else {}
res = load('/verif/sensitivity/results.json')
res.update(load('/verif/sensitivity/results_seeded.json'))
cross = load('/verif/sensitivity/results_cross.json')
lines = ["# Sensitivity matrix", "",
         "Produced by `tools/lab.py` (each modified tree is evaluated in a scratch worktree with a scratch copy of the harness;",
         "quick tier, VERIF_SEED=1). `caught` = quick check exits 1 with a VIOLATION line; `-` = exits 0; `2` = inconclusive.",
         "`suite` = the repository's unedited 72 tests + 23 doctests stay green with the change (a change that breaks the",
         "suite is not a realistic escape, it is listed for completeness).", ""]
def row(name, v, note=''):
    if 'error' in v:
        return f"| {name} | n/a | {v['error'][:60].replace('|','/')} | {note} |"
    cells = []
    for p, r in sorted(v['props'].items()):
        cells.append(f"{p}:{'caught' if r['rc'] == 1 else ('-' if r['rc'] == 0 else r['rc'])}")
    sg = v.get('suite_green')
    return f"| {name} | {'green' if sg else ('n/a' if sg is None else 'RED')} | {' '.join(cells)} | {note} |"
for title, prefix in [("Repaired defects re-introduced one at a time (reverse-applied fix commits)", 'revert-'),
                      ("Hand-written mutants (DESIGN 6.2)", 'hand-'), ("Seeded by independent sub-agents (/verif/seeded)", 'seeded-')]:
    lines += [f"## {title}", "", "| change | suite | quick checks | note |", "|---|---|---|---|"]
    for k in sorted(res):
        if k.startswith(prefix):
            note = res[k].get('subject', '')
            if prefix == 'seeded-':
                m = f"/verif/seeded/{k[7:]}/meta.json"
                if os.path.exists(m):
                    note = json.load(open(m))['needs_to_manifest'][:150]
            lines.append(row(k, res[k], note.replace('|', '/')))
    lines.append("")
if cross:
    lines += ["## Cross checks (mutants missed by their own property, run against neighbouring properties)", "", "| change | suite | quick checks | note |", "|---|---|---|---|"]
    for k in sorted(cross):
        lines.append(row(k, cross[k]))
open('/verif/sensitivity/MATRIX.md', 'w').write('\n'.join(lines) + '\n')
print(len(lines), 'lines')

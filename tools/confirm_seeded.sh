#!/bin/sh
# usage: confirm_seeded.sh <worktree> <A|B>   -- confirms in the scratch worktree that (1) the suite stays green
# with the change, (2) the demo fails with it and (3) passes without it. Leaves src/ unchanged.
wt=$1; x=$2
cd "$wt" || exit 2
export CARGO_NET_OFFLINE=true
git checkout -q -- src build.rs 2>/dev/null
mkdir -p tests && cp out/demo_$x.rs tests/demo_$x.rs
echo "== unchanged tree: demo must pass"
cargo test --offline --test demo_$x 2>&1 | grep -E "^test result|panicked|error" | head -3
git apply out/$x.diff || { echo "PATCH DOES NOT APPLY"; exit 1; }
echo "== changed tree: demo must fail"
cargo test --offline --test demo_$x 2>&1 | grep -E "^test result|error(\[|:)" | head -3
rm -f tests/demo_$x.rs; rmdir tests 2>/dev/null
echo "== changed tree: existing suite must stay green"
cargo test --offline 2>&1 | grep -E "^test result" | head -4
git checkout -q -- src build.rs 2>/dev/null
git status --short | grep -v "^?? out/" | head

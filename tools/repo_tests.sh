#!/bin/sh
# runs the pinned repository suite (72 tests) + doctests offline; prints a summary
cd /repo || exit 2
export CARGO_NET_OFFLINE=true
cargo nextest run --workspace --no-fail-fast --tool-config-file pb:/w/lib/nextest.toml --profile pb --test-threads 8 --offline 2>&1 | grep -E "Summary|FAIL|error" | head -20
cargo test --doc --offline 2>&1 | grep -E "^test result|FAILED|failed" | head

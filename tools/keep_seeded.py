#!/usr/bin/env python3
"""usage: keep_seeded.py <worktree> <A|B> <id> <property> <needs> <results-json>"""
import sys, os, shutil, json
wt, x, sid, prop, needs, results = sys.argv[1:7]
d = f'/verif/seeded/{sid}'
os.makedirs(d, exist_ok=True)
shutil.copy(f'{wt}/out/{x}.diff', f'{d}/patch.diff')
shutil.copy(f'{wt}/out/demo_{x}.rs', f'{d}/demo.rs')
notes = open(f'{wt}/out/NOTES.md').read() if os.path.exists(f'{wt}/out/NOTES.md') else ''
open(f'{d}/NOTES_from_author.md', 'w').write(notes)
meta = {
    "id": sid, "breaks_property": prop, "origin": "independent sub-agent given only the property text and a scratch worktree",
    "needs_to_manifest": needs,
    "confirmed": "tools/confirm_seeded.sh in the scratch worktree: demo passes on the unchanged tree, fails with the patch; unedited suite 72 tests + 23 doctests green with the patch",
    "checks_run": "tools/run_seeded.py patch.diff <props> (git -C /repo apply; ./check <prop> quick with VERIF_SEED=1; git -C /repo checkout -- .)",
    "results": json.loads(results),
}
json.dump(meta, open(f'{d}/meta.json', 'w'), indent=1)
print('kept', d)

#!/usr/bin/env python3
"""usage: add_fixed.py <property> <commit> <what failed>  -- appends a documentation-only 'fixed' entry"""
import json, sys
p = '/verif/known_findings.json'
d = json.load(open(p))
prop, commit, what = sys.argv[1], sys.argv[2], sys.argv[3]
d['findings'].append({"kind": "fixed", "property": prop, "commit": commit, "what": what,
                      "line": "fixed: property=%s %s %s" % (prop, commit, what)})
json.dump(d, open(p, 'w'), indent=1); open(p, 'a').write("\n")

#!/usr/bin/env python3
"""Regenerates /verif/MANIFEST.json from the table below (single source of truth)."""
import json, os, sys

ROOT = os.path.dirname(os.path.dirname(os.path.abspath(__file__)))

# property -> (implemented?, level category, technique, level text, level note, design ref)
P = {}

def add(pid, cat, technique, text, note, ref):
    P[pid] = dict(cat=cat, technique=technique, text=text, note=note, ref=ref)

add("C19", "exploration",
    "property-based testing (proptest): generated polynomials/smooth functions vs exact term-wise calculus; exactness, predicted leading error term (two-sided), remainder bounds, linearity",
    "Generated-input search over polynomials of degree 0..6 (real/complex), points and steps in the stated ranges, with an exact-calculus oracle and stated rounding allowances (>=20x margin measured); exactness on low degrees is decided two-sidedly through the predicted leading error term.",
    "Trusts libm sin/exp to a few ulp and the harness's Horner evaluation; exploration only - no proof of absence.",
    "DESIGN.md 4/C19")
add("C20", "exploration",
    "exhaustive enumeration of all 354 listing rows, all table keys and all named constants against an independent parser; proptest-generated one-edit near-miss names",
    "Every row of codata.txt (parsed by an independent blank-run tokenizer) is compared bit-for-bit with the table, every table key is looked up in the listing, every named constant is compared with its row, derived relations checked to 2e-9; generated near-miss names must be absent. The finite part is complete.",
    "Trusts the correctly-rounded decimal parsers of rustc and std, and the constant->quantity name mapping documented in DESIGN.md.",
    "DESIGN.md 4/C20")

ALL = ["C%02d" % i for i in range(1, 21)]

def main():
    checks = []
    na = []
    for pid in ALL:
        if pid in P:
            p = P[pid]
            checks.append({
                "property_id": pid,
                "quick_cmd": "./check %s quick" % pid,
                "thorough_cmd": "./check %s thorough" % pid,
                "evidence_file": "/verif/evidence/%s.json" % pid,
                "replay_cmd_template": "./check %s --replay {path}" % pid,
                "engine": "bverif",
                "level_claimed": {"category": p["cat"], "text": p["text"], "design_ref": p["ref"]},
                "level_note": p["note"],
                "technique": p["technique"],
            })
        else:
            na.append({"property_id": pid, "reason": "check under construction in this session (designed in DESIGN.md section 4; not yet registered)"})
    m = {
        "version": 1,
        "setup_cmd": "cd /verif/harness && CARGO_NET_OFFLINE=true cargo build --release --offline",
        "hooks": {
            "guard": "none",
            "enable": "no source hooks: the harness links /repo's working tree as a path dependency and includes /repo/src/integrate/tables.rs via #[path]",
            "baseline_off_cmd": "cd /repo && cargo test --workspace --no-fail-fast --offline",
            "source_commits": [],
            "add_only": True,
        },
        "engines": [{
            "name": "bverif",
            "path": "/verif/harness",
            "serves_properties": sorted(P.keys()),
            "kind_free_text": "Rust harness: proptest TestRunner driven from binaries (fixed seeds, 16 rayon shards, shrinking, JSON replay files, evidence writer, known-findings matcher); reference oracles in src/refs",
        }],
        "checks": checks,
        "notes": "All checks: exit 0 held / 1 VIOLATION line / 2 inconclusive (build failure, watchdog, generator health). VERIF_SEED selects the PRNG seed (default 1).",
        "not_applicable": na,
    }
    with open(os.path.join(ROOT, "MANIFEST.json"), "w") as f:
        json.dump(m, f, indent=1)
        f.write("\n")

main()

#!/usr/bin/env python3
"""Regenerates /verif/MANIFEST.json from the table below (single source of truth)."""
import json, os, sys

ROOT = os.path.dirname(os.path.dirname(os.path.abspath(__file__)))

# property -> (implemented?, level category, technique, level text, level note, design ref)
P = {}

def add(pid, cat, technique, text, note, ref):
    P[pid] = dict(cat=cat, technique=technique, text=text, note=note, ref=ref)

add("C19", "exploration",
    "property-based testing (proptest): generated polynomials/smooth functions vs exact term-wise calculus; exactness, predicted leading error term (two-sided), remainder bounds, linearity",
    "Generated-input search over polynomials of degree 0..6 (real/complex), points and steps in the stated ranges (a quarter of the steps negative), with an exact-calculus oracle and stated rounding allowances (>=20x margin measured); exactness on low degrees is decided two-sidedly through the predicted leading error term.",
    "Trusts libm sin/exp to a few ulp and the harness's Horner evaluation; exploration only - no proof of absence.",
    "DESIGN.md 4/C19")
add("C20", "exploration",
    "exhaustive enumeration of all 354 listing rows, all table keys and all named constants against an independent parser; proptest-generated one-edit near-miss names",
    "Every row of codata.txt (parsed by an independent blank-run tokenizer) is compared bit-for-bit with the table, every table key is looked up in the listing, every named constant is compared with its row, derived relations checked to 2e-9; generated near-miss names must be absent. The finite part is complete.",
    "Trusts the correctly-rounded decimal parsers of rustc and std, and the constant->quantity name mapping documented in DESIGN.md.",
    "DESIGN.md 4/C20")

add("C11", "exploration",
    "property-based differential testing (proptest) against naive O(n^2) coefficient algebra: all operator forms, scalar/linear/FFT product paths, dft/idft round trip and values at roots of unity; thorough tier adds a coverage-guided libFuzzer target (cargo-fuzz) on the same case structure and oracle",
    "Generated real and complex polynomial pairs (degree 0..40 quick / 0..128 thorough, structured shapes and power-of-two boundary lengths, operands just below a loose tolerance, operands with different tolerances) are pushed through every owned/borrowed/assigning operator form and compared coefficient-wise with naive harness algebra under a stated rounding allowance ((16+N) eps |a|_1|b|_1 + 1.5 tol for FFT size N; >=10x measured margin); degree, commutativity, pointwise product and transform identities are checked on the same cases.",
    "Exploration only. Trusts naive harness arithmetic; FFT noise allowance grows linearly with transform size (calibrated, see DESIGN C11).",
    "DESIGN.md 4/C11")
add("C12", "exploration",
    "property-based testing (proptest): reconstruction dividend = q*d + r in naive harness arithmetic with a backward-error allowance, degree of remainder, forward-error (a-posteriori recurrence) allowance for exact multiples, error on zero divisor; thorough tier adds a coverage-guided libFuzzer target (cargo-fuzz) on the same case structure and oracle",
    "Generated dividends/divisors (real and complex, exact multiples, higher-degree and constant divisors, zero polynomial) with the Euclidean identity, remainder degree and remainder-vanishing oracles.",
    "Exploration only. For ill-conditioned divisors the exact-multiple remainder allowance grows with the a-posteriori amplification factor, so small defects there may be masked.",
    "DESIGN.md 4/C12")
add("C13", "exploration",
    "model-based property testing (proptest): operation histories vec(op,0..40) interpreted against the implementation and a reference coefficient map compared after every step; evaluation/calculus identities against naive power-sum and term-wise oracles; thorough tier adds a coverage-guided libFuzzer target (cargo-fuzz) on the same case structure and oracle",
    "Random edit/arithmetic histories (set/purge at, before and beyond the end, purge_leading, scalar and polynomial arithmetic, linear factors, derivative, antiderivative, slice round trip) are run in lock-step with a reference coefficient map; evaluation, derivative, antiderivative and definite-integral identities are checked on the same polynomials; no step may panic.",
    "Exploration only. The reference map replicates single IEEE operations and is re-synchronised to the implementation after every accepted step (each step judged on its own).",
    "DESIGN.md 4/C13")
add("C18", "exploration",
    "exhaustive enumeration (5 families x n=0..20 x 5 tolerances x real/complex) plus proptest-generated tolerances against exact i128-rational three-term recurrences",
    "Every constructor output in the stated index range is compared coefficient-wise with exact rational coefficients (64 eps n |exact|_1; measured margin 400x), degree exactly n, plus normalisation/trigonometric/parity/leading-coefficient consequences. The finite (family, n, listed tolerance, field) space is complete.",
    "Trusts the harness's checked-i128 rational arithmetic and the textbook recurrences (A&S 22.7).",
    "DESIGN.md 4/C18")

add("C07", "exploration",
    "property-based testing (proptest) with an instrumented objective function: abscissa recorder + evaluation budget, catalogue of functions with analytically known sign-change roots; Ok/Err classification oracle",
    "Generated (solver, function, bracket, tolerance, ITP parameter) cases, incl. functions strongly non-linear on the scale of the tolerance and bisection with n_max exactly the number of halvings its stopping rule needs; the function passed to the solver records every abscissa and enforces a hard evaluation budget, so containment, termination and accuracy (distance to a known sign change, or |f|<tol for Brent) are decided per case; invalid inputs must give Err.",
    "Exploration only. Root sets of the catalogue are analytic; a 4-ulp slack is allowed on 'inside the closed interval' because bracket ends are recomputed in the harness.",
    "DESIGN.md 4/C07")
add("C08", "exploration",
    "property-based testing (proptest): constructed systems A(x-r)+eta*N(x-r) with known root and controlled conditioning, polynomials expanded from separated roots, contraction catalogue incl. under-relaxed (slow) contractions; rotation-shaped and complex-valued systems; call-count budgets; known-finding signature matching",
    "Generated regular problems inside the convergence region by construction (Kantorovich-type cap on the non-linearity; Newton basin radius 0.8 d/(2n-1) for polynomials; Muller triples within 0.1 of the root separation) must return Ok within 2 tol + rounding floor; singular/exhausted classes must give Err or a genuine solution; no panic/NaN; iteration caps respected via call counters.",
    "Exploration only. One recorded finding (K2: secant on singular systems) is matched by signature and reported as KNOWN-FINDING. Wide Muller triples are sanity-checked only (the stopping heuristic can fire by coincidence far from a root).",
    "DESIGN.md 4/C08")
add("C14", "exploration",
    "property-based testing (proptest): polynomials expanded from grid-constructed separated roots (real, conjugate pairs, complex, sparse x^n-c), one-to-one root matching oracle; exhaustive orthogonal-polynomial zeros against recurrence-based bisection",
    "Generated polynomials of degree 1-10 with known separated roots: Ok required, exactly degree-many results matched one-to-one within a tolerance-scaled bound, conjugation closure, common real/complex factors on all coefficients (incl. purely imaginary leading coefficients); zeros of Legendre/Hermite (n<=16) and Laguerre (n<=14, with the root tolerance below the leading coefficient 1/n!) enumerated completely against an independent reference.",
    "Exploration only; tolerance range starts at 10x the a-priori evaluation noise floor; n_max fixed to 200.",
    "DESIGN.md 4/C14")

add("C09", "exploration",
    "property-based testing (proptest) with closed-form integrals; admission by a reliability certificate (harness-side simulation of the documented stopping rule on independently computed nodes); instrumented integrand (call counter) and differential work bound against a textbook adaptive Simpson",
    "Generated integrands with closed-form (weighted) integrals; a case is judged only when the harness's own simulation of the stopping heuristic decides every step with a 1.5x margin and is itself within tol/2 of the truth, then Ok within K tol is required (K=2; Simpson K=1 on degree<=5 polynomials; Romberg exact to rounding); Simpson's evaluation count is compared with a textbook implementation per case and per batch; invalid inputs must give Err for all eight routines.",
    "Exploration only. About 6% of generated cases are not admitted by the certificate (counted as discards). No accuracy claim for adaptive Simpson on non-polynomial integrands (the property claims only work there).",
    "DESIGN.md 4/C09")
add("C10", "exploration",
    "exhaustive enumeration of every table row and entry (251 Gaussian rules, 192 tanh-sinh pairs): structure, exactness on all monomials of degree <= 2n-1 against exact moments, node/weight comparison with independently computed Gauss rules (Golub-Welsch, closed forms), double-exponential formula; proptest-generated random polynomials in orthonormal bases",
    "Every row of the five Gaussian tables of the working tree is expanded as the integrators consume it and checked for n distinct interior nodes, positive weights, exactness on every monomial up to degree 2n-1 (1e-9 relative to sum w|p|) and agreement with an independent rule to 1e-10; every tanh-sinh pair against the formula (1e-12); and through the public integrators: an instrumented never-converging integrand records every abscissa (the rule at position n is asked for exactly the n table nodes) and a one-hot integrand reads out the weight applied at every evaluation of every rule from the fourth on (bit-equal to the table). The finite space is covered completely.",
    "Table perturbations below ~1e-10 relative are below the resolution (stated limit). Trusts nalgebra's symmetric eigen-solver for the independent rules.",
    "DESIGN.md 4/C10")

add("C15", "exploration",
    "property-based testing (proptest): grid-constructed separated nodes, arbitrary and polynomial-sampled data, permuted listings; oracles: degree bound, node residuals with a stated growth allowance, uniqueness via the harness-computed (confluent) Vandermonde inverse, permutation metamorphic relation",
    "Generated node sets (1-8 nodes, real and complex) with data either arbitrary or sampled from a polynomial within the degree bound; the interpolant must satisfy the degree bound, reproduce values (and derivatives) at every node, coincide with the sampled polynomial up to the conditioning of the nodes, be independent of the listing order, and reject mismatched slice lengths.",
    "Exploration only. The growth allowance G(n) for the divided-difference recurrences is large at 7-8 Hermite nodes (the routine is genuinely lossy there), so only defects of relative size >> 1e-6 are visible at that end.",
    "DESIGN.md 4/C15")
add("C16", "exploration",
    "property-based differential testing (proptest) against an independent dense LU solve of the spline equations; direct checks of interpolation, C2 continuity (second derivative recovered from values and slopes), end conditions, cubic/line reproduction, error on invalid input",
    "Generated knot sets (2-40 knots, spacing ratio up to 50, real and complex ordinates, free and clamped) are compared on every interval at both end knots (from inside) and 8 interior points, values and slopes, with an independently solved reference spline (64 eps (K(x) + g h^2), g the propagated rounding scale of the second derivatives; measured margin > 40x); the polynomial tolerance argument ranges over 10^[-14,0] and must not move the spline, ordinates over 12 decades.",
    "Exploration only. Equal knots are not generated (validity undefined).",
    "DESIGN.md 4/C16")

add("C17", "exploration",
    "property-based testing (proptest): normal-equation / exact-reproduction / permutation oracles for linear_fit; reference least-squares solution (harness Gauss-Newton) and model-call budget for Levenberg-Marquardt; bug-compatible reference model of the LM loop to key the recorded findings K1 (finite-difference Jacobian), K3 (no step rejection) and K5 (first-iteration exit at damping (1 - 1/mult) ~ 1)",
    "Generated data sets and models (linear in parameters and exponential/gaussian/logistic, noise-free and noisy; replicated abscissae; abscissae far from the origin; complex data for linear_fit and curve_fit_jac; damping from 1e-10 (linear models) / 1e-4 (non-linear) to 10) with well-conditioned designs; the fit must terminate within a model-call budget and lie within a tolerance-governed distance of the reference least-squares solution; invalid parameters and mismatched lengths must give Err. curve_fit's finite-difference Jacobian defect is a recorded finding: a failing curve_fit outcome is attributed to it only if it coincides with the harness's transliteration of the loop with Jacobian = sum.",
    "Exploration only. On the pinned tree most curve_fit (finite-difference) cases fall under K1, so that variant's accuracy is effectively unverified until the defect is repaired; curve_fit_jac, linear_fit and all validation paths are fully judged; curve_fit_jac failures in which the transliterated loop accepted an uphill step and a safeguarded iteration succeeds are reported as K3; failures in which that loop exits after one main iteration with damping (1 - 1/mult) within 0.1 of 1 are reported as K5.",
    "DESIGN.md 4/C17")

add("C01", "exploration",
    "property-based testing (proptest) + exhaustive boundary sweep: invariant over the yielded history (ordering, containment, gap bound, end point, Euler grid) through next() and collect_vec, on a generated family of smooth problems and configurations",
    "Generated (solver, problem, t0, dt_min, dt_max, tolerance, interval length) configurations incl. tolerances recentred on the first-step estimate (forces rejections) and intervals from a fraction of a step to thousands of steps; the start-up boundaries (interval = (j+delta) first steps, j=0..9, six deltas) are swept exhaustively for all seven solvers on four problems.",
    "Exploration only. Time comparisons carry the slack 16 eps max(|t0|,|t_end|); a completed path that misses the ending time by less than that (a few ulps) is the recorded finding K4 and reported as KNOWN-FINDING, anything larger is a violation. Paths that end with a solver error are judged up to the error (completion is C05's claim).",
    "DESIGN.md 4/C01")
add("C02", "exploration",
    "property-based testing (proptest) with exact/reference flows: every consecutive pair of yielded points is compared with the exact solution restarted at the previous point (closed-form flows; 3-stage Gauss-Legendre reference flow for the generic family)",
    "Generated paths of the six adaptive solvers inside the quantifier's step-cap regime; every accepted step (start-up, multistep, clipped final) must satisfy |y_(n+1) - Phi(t_n,y_n;t_(n+1))| <= 100 tol h (RK, Adams) or 20 tol (BDF) plus a rounding floor; linear problems also with solutions of size up to 1e3 (the step cap then uses tol divided by the size reached).",
    "Exploration only. The constants 100/20 are 'a fixed modest multiple' with 3.5x-20x measured margin over 6e4 thorough cases; degradations below that are invisible here (C03 is the sharp instrument).",
    "DESIGN.md 4/C02")
add("C03", "exploration",
    "property-based differential testing (proptest) against harness-side reference formulas transcribed from the literature (Fehlberg 4(5), Bogacki-Shampine 3(2), classical RK4, AB/AM 2 and 4, BDF 2/6): every yielded point re-derived from the preceding yielded points, policy-independently; fixed-step accept/reject direction",
    "On generic non-linear non-autonomous right-hand sides (and, for the BDF solvers, quasi-steady relaxations strongly curved in the state) every point of every generated path must be one step of the advertised scheme from the previous point(s) to rounding level (Runge-Kutta, Euler, RK4 start-up, Adams with PEC/PECE history search) or satisfy the BDF formula at the new time within tol, with the method's own error estimate within tolerance (a BDF point with a larger residual at which the harness's transliteration of the library's quasi-Newton iteration also stops is the recorded finding K6); on fixed-step configurations steps with estimates <= tol/100 must be taken and first steps with estimates > 2 tol must not.",
    "Exploration only. BDF points are judged by the residual of the implicit formula (<= tol), so a different but equally accurate implicit solve is indistinguishable.",
    "DESIGN.md 4/C03")
add("C04", "exploration",
    "property-based testing (proptest): tolerance ladders and Euler step ladders against closed-form solutions (two-sided order check), metamorphic pairs complex (dimension 1-2, incl. components in quadrature and estimator-limited steps) vs equivalent real system and static vs dynamic dimension",
    "Tolerance ladders 1e-3..1e-10 for the six adaptive solvers and step ladders for Euler on closed-form problems with a problem-dependent amplification factor; complex problems of dimension 1 and 2 against the equivalent real system of twice the dimension (both within the accuracy bound; the complex formulation's worst error within 20x that of the real one, comparable step counts; point-by-point equality when the step sequences coincide); the same problem through new() and new_dyn().",
    "Exploration only. Static and dynamic runs differ by rounding in the error norms, which the step controller amplifies (eps|f|/tol); they are compared after transporting points with the reference flow.",
    "DESIGN.md 4/C04")
add("C05", "exploration",
    "property-based testing (proptest) with an instrumented derivative: call counter and hard evaluation budget inside the user function turn 'terminates / does not loop / order-appropriate work' into a per-case verdict",
    "Generated smooth non-stiff problems (incl. solutions at rest) with dt_min <= 1e-6 dt_max: the solve must complete at the ending time within K (T L tol^(-1/p) + T/dt_max) + 400 derivative evaluations (K per method, >= 12x measured margin) and spend at least one evaluation per maximal step. Three sharper sub-classes: long relaxations (work held to the integral of max(L (|y-y*|/tol)^(1/p), 1/dt_max) and, once the exact solution has relaxed below tol/1000, to 3x the measured evaluations per maximal step), cap-limited solves (maximum step so small that nothing else limits the step: 3x the measured evaluations per maximal step), complex-valued states (same budget); minimum steps down to 1e-300 of the maximum.",
    "Exploration only. L is the larger of the Lipschitz constant and the forcing frequencies of the generated problem.",
    "DESIGN.md 4/C05")
add("C06", "fault_enumeration",
    "exhaustive small-scope enumeration of builder-call sequences against a reference model of the builder contract (model-based testing) + fault enumeration: the user derivative fails at every call number k of a fault-free reference run; proptest-generated longer sequences",
    "Every sequence of up to 4 (quick) / 5 (thorough) builder calls over a 17-symbol alphabet (plus six extended symbols - spans shorter than the step bounds, step bounds longer than the span - appended to complete configurations in every rotation and in the generated sequences) for all 7 builders, static and dynamic, is compared call by call with a reference model (error kinds, min/max adjustment, MissingParameters, dimension misuse), every complete configuration minus one mandatory call (all rotations) must report MissingParameters, and sequences that build are solved; for 10 configurations per solver every fault position k (all k <= 400) must give a bit-identical prefix, exactly one Err(UserError(payload)) carrying the payload (a private error type; for k <= 80 also a boxed library error and a boxed std error), then None, no further derivative calls, and the same error from collect_vec.",
    "The builder alphabet is finite by construction (two values per time, four per step bound); faults beyond call 400 are sampled log-uniformly.",
    "DESIGN.md 4/C06")

ALL = ["C%02d" % i for i in range(1, 21)]

def main():
    checks = []
    na = []
    for pid in ALL:
        if pid in P:
            p = P[pid]
            checks.append({
                "property_id": pid,
                "quick_cmd": "./check %s quick" % pid,
                "thorough_cmd": "./check %s thorough" % pid,
                "evidence_file": "/verif/evidence/%s.json" % pid,
                "replay_cmd_template": "./check %s --replay {path}" % pid,
                "engine": "bverif",
                "level_claimed": {"category": p["cat"], "text": p["text"], "design_ref": p["ref"]},
                "level_note": p["note"],
                "technique": p["technique"],
            })
        else:
            na.append({"property_id": pid, "reason": "check under construction in this session (designed in DESIGN.md section 4; not yet registered)"})
    m = {
        "version": 1,
        "setup_cmd": "cd /verif/harness && CARGO_NET_OFFLINE=true cargo build --release --offline",
        "hooks": {
            "guard": "none",
            "enable": "no source hooks: the harness links /repo's working tree as a path dependency and includes /repo/src/integrate/tables.rs via #[path]",
            "baseline_off_cmd": "cd /repo && cargo test --workspace --no-fail-fast --offline",
            "source_commits": [],
            "add_only": True,
        },
        "engines": [{
            "name": "bverif",
            "path": "/verif/harness",
            "serves_properties": sorted(P.keys()),
            "kind_free_text": "Rust harness: proptest TestRunner driven from binaries (fixed seeds, 16 rayon shards, shrinking, JSON replay files, evidence writer, known-findings matcher); reference oracles in src/refs",
        }],
        "checks": checks,
        "notes": "All checks: exit 0 held / 1 VIOLATION line / 2 inconclusive (build failure, watchdog, generator health). VERIF_SEED selects the PRNG seed (default 1).",
        "not_applicable": na,
    }
    with open(os.path.join(ROOT, "MANIFEST.json"), "w") as f:
        json.dump(m, f, indent=1)
        f.write("\n")

main()

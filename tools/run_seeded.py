#!/usr/bin/env python3
"""usage: run_seeded.py <patch.diff> <Cxx>...  applies the patch to /repo's working tree, runs the quick checks, undoes it."""
import subprocess, sys, json, time
def sh(c): return subprocess.run(c, shell=True, capture_output=True, text=True)
patch, props = sys.argv[1], sys.argv[2:]
tier = 'quick'
if props and props[0] in ('quick', 'thorough'):
    tier, props = props[0], props[1:]
assert sh("git -C /repo status --porcelain").stdout.strip() == '', 'repo not clean'
r = sh(f"git -C /repo apply {patch}")
if r.returncode != 0:
    print("patch does not apply:", r.stderr); sys.exit(2)
res = {}
try:
    for p in props:
        t0 = time.time()
        c = sh(f"cd /verif && VERIF_SEED=1 ./check {p} {tier}")
        last = [l for l in c.stdout.split('\n') if l.startswith(('OK', 'VIOLATION', 'reason', 'GENERATOR', 'WATCHDOG', 'failing'))]
        res[p] = {'rc': c.returncode, 'wall': round(time.time() - t0, 1), 'lines': [l[:400] for l in last[-3:]]}
        print(p, 'rc=%d' % c.returncode, ' | '.join(l[:300] for l in last[-2:]), flush=True)
finally:
    sh("git -C /repo checkout -- .")
print(json.dumps({k: v['rc'] for k, v in res.items()}))

#!/usr/bin/env python3
"""Hand-written mutants (DESIGN 6.2): each is a single textual replacement in /repo's working tree that still
compiles. For each: run the repository suite (must stay green to count as 'realistic'), run the quick checks
listed, restore the tree. Results -> /verif/sensitivity/hand.json"""
import subprocess, json, os, sys, time

M = [
 # name, file, old, new, count, props
 ("rk45-b4-weight", "src/ivp/rk.rs", "Self::RealField::from_u16(1408)? / Self::RealField::from_u16(2565)?", "Self::RealField::from_u16(1408)? / Self::RealField::from_u16(2656)?", 1, ["C02","C03","C04","C05"]),
 ("rk45-c3-abscissa", "src/ivp/rk.rs", "            three / eight,", "            three / (eight.clone() + Self::RealField::one()),", 1, ["C02","C03","C04"]),
 ("rk23-a32", "src/ivp/rk.rs", "            Self::RealField::from_u8(3)? / Self::RealField::from_u8(4)?,\n            zero.clone(),\n            zero.clone(),\n            // Row 3", "            Self::RealField::from_u8(2)? / Self::RealField::from_u8(3)?,\n            zero.clone(),\n            zero.clone(),\n            // Row 3", 1, ["C02","C03","C04"]),
 ("rk-end-clip-gt", "src/ivp/rk.rs", "        if self.time.real() + self.dt.real() >= self.end.real() {\n            self.dt = self.end - self.time;\n        }\n\n        for (i, k_row)", "        if self.time.real() + self.dt.real() > self.end.real() + self.dt_min.real() {\n            self.dt = self.end - self.time;\n        }\n\n        for (i, k_row)", 1, ["C01","C03","C05"]),
 ("rk-drop-dtmax-clamp", "src/ivp/rk.rs", "        if self.dt.real() > self.dt_max.real() {\n            self.dt = self.dt_max;\n        }\n\n        if self.dt.real() < self.dt_min.real() && self.time.real() < self.end.real() {", "        if self.dt.real() < self.dt_min.real() && self.time.real() < self.end.real() {", 1, ["C01","C03","C06"]),
 ("iter-skip-finished", "src/ivp.rs", "                Err(IE::Failure(e)) => {\n                    self.finished = true;\n                    break Some(Err(e));", "                Err(IE::Failure(e)) => {\n                    break Some(Err(e));", 1, ["C06","C01"]),
 ("adams-swap-oob", "src/ivp/adams.rs", "                return Err(IVPError::TimeStartOOB);", "                return Err(IVPError::TimeEndOOB);", 1, ["C06"]),
 ("bdf-missing-param-default", "src/ivp/bdf.rs", "        let dt_min = self.init_dt_min.ok_or(IVPError::MissingParameters)?;", "        let dt_min = self.init_dt_min.unwrap_or_else(|| dt_max.clone());", 1, ["C06"]),
 ("adams-am-coefficient", "src/ivp/adams.rs", "-Self::RealField::from_u16(264)? / seven_hundred_twenty.clone(),", "-Self::RealField::from_u16(246)? / seven_hundred_twenty.clone(),", 1, ["C02","C03","C04","C05"]),
 ("adams3-ab-coefficient", "src/ivp/adams.rs", "            Self::RealField::one() + Self::RealField::from_u8(2)?.recip(),\n            -Self::RealField::from_u8(2)?.recip(),", "            Self::RealField::one() + Self::RealField::from_u8(3)?.recip(),\n            -Self::RealField::from_u8(3)?.recip(),", 1, ["C02","C03","C04","C05"]),
 ("bdf6-coefficient", "src/ivp/bdf.rs", "-Self::RealField::from_u16(400)? / one_hundred_forty_seven.clone(),", "-Self::RealField::from_u16(410)? / one_hundred_forty_seven.clone(),", 1, ["C02","C03","C04","C05"]),
 ("bdf-error-tol-x10", "src/ivp/bdf.rs", "        if error <= self.tolerance.real() {\n            self.state = higher_step;", "        if error <= self.tolerance.real() * Self::RealField::from_u8(50).unwrap() {\n            self.state = higher_step;", 1, ["C02","C03","C04"]),
 ("euler-step-order", "src/ivp.rs", "        self.state += derivative * self.dt;\n        self.time += self.dt;", "        self.time += self.dt;\n        self.state += derivative * self.dt * N::from_real(self.time.real() / self.time.real());", 1, ["C03"]),
 ("bisection-wrong-side", "src/roots/mod.rs", "        if (f_p * f_a).is_sign_positive() {\n            left = middle;\n            f_a = f_p;", "        if (f_p * f_a).is_sign_positive() {\n            left = middle;", 1, ["C07"]),
 ("brent-return-left", "src/roots/mod.rs", "    if f_s.abs() < tol {\n        Ok(s)\n    } else {\n        Ok(right)\n    }", "    if f_s.abs() < tol {\n        Ok(s)\n    } else {\n        Ok(left)\n    }", 1, ["C07"]),
 ("itp-k2-range", "src/roots/mod.rs", "    if k_2 <= N::one() ||", "    if k_2 < N::one() ||", 1, ["C07"]),
 ("romberg-divisor", "src/integrate/mod.rs", "(four.powi(j as i32 - 1) - N::one())", "(four.powi(j as i32 - 1) + N::one())", 1, ["C09"]),
 ("simpson-tol-not-halved", "src/integrate/mod.rs", "                tol_i.push(half_real * v_6);\n                sum_i.push(s2);", "                tol_i.push(v_6);\n                sum_i.push(s2);", 1, ["C09"]),
 ("gauss-tol-scale", "src/integrate/gaussian.rs", "N::from_f64(0.25).unwrap().real() * tol / scale", "N::from_f64(2.5).unwrap().real() * tol / scale", 1, ["C09"]),
 ("legendre-weight-12th-digit", "src/integrate/tables.rs", "(0.7745966692414834, 0.5555555555555557),", "(0.7745966692414834, 0.5555555555565557),", 1, ["C10","C09"]),
 ("legendre-weight-6th-digit", "src/integrate/tables.rs", "(0.7745966692414834, 0.5555555555555557),", "(0.7745966692414834, 0.5555565555555557),", 1, ["C10","C09"]),
 ("de-table-abscissa", "src/integrate/tables.rs", "(0.5 * 0.018343166989927842087, 0.99751485645722438683),", "(0.5 * 0.018343166989927842087, 0.99751485645722438683 - 1e-9),", 1, ["C10","C09"]),
 ("fft-bitrev-off", "src/polynomial/mod.rs", "    let num_bits = (len as f64).log2() as usize;\n    for k in 0..len {\n        result[bit_reverse(k, num_bits)] = vec[k];", "    let num_bits = (len as f64).log2() as usize;\n    for k in 0..len {\n        result[bit_reverse(k, num_bits)] = vec[if len == 64 { k ^ 1 } else { k }];", 1, ["C11","C18","C15","C16"]),
 ("divide-trim-le", "src/polynomial/mod.rs", "            while remainder.coefficients.len() > 1\n                && remainder.coefficients.last().unwrap().real().abs() < self.tolerance", "            while remainder.coefficients.len() > 2\n                && remainder.coefficients.last().unwrap().real().abs() < self.tolerance", 1, ["C12","C14"]),
 ("antiderivative-off", "src/polynomial/mod.rs", "coefficients.push(*val * N::from_f64(1.0 / (ind + 1) as f64).unwrap());", "coefficients.push(*val * N::from_f64(1.0 / (ind + 1) as f64).unwrap() + if ind == 7 { *val * N::from_f64(1e-9).unwrap() } else { N::zero() });", 1, ["C13"]),
 ("sub-ref-owned-sign", "src/polynomial/mod.rs", "    fn sub(self, rhs: Polynomial<N>) -> Polynomial<N> {\n        let min_order = self.coefficients.len().min(rhs.coefficients.len());\n        let mut coefficients =\n            Vec::with_capacity(self.coefficients.len().max(rhs.coefficients.len()));\n        for (ind, val) in self.coefficients.iter().take(min_order).enumerate() {\n            coefficients.push(*val - rhs.coefficients[ind]);\n        }\n\n        // Only one for loop runs\n        for val in self.coefficients.iter().skip(min_order) {\n            coefficients.push(*val);\n        }\n\n        for val in rhs.coefficients.iter().skip(min_order) {\n            coefficients.push(-*val);", "    fn sub(self, rhs: Polynomial<N>) -> Polynomial<N> {\n        let min_order = self.coefficients.len().min(rhs.coefficients.len());\n        let mut coefficients =\n            Vec::with_capacity(self.coefficients.len().max(rhs.coefficients.len()));\n        for (ind, val) in self.coefficients.iter().take(min_order).enumerate() {\n            coefficients.push(*val - rhs.coefficients[ind]);\n        }\n\n        // Only one for loop runs\n        for val in self.coefficients.iter().skip(min_order) {\n            coefficients.push(*val);\n        }\n\n        for val in rhs.coefficients.iter().skip(min_order) {\n            coefficients.push(*val);", 1, ["C11"]),
 ("spline-mu-index", "src/interp/spline.rs", "        z.push((alphas[i] - N::from_real(hs[i - 1]) * z[i - 1]) / l[i]);\n    }\n\n    l.push(N::one());", "        z.push((alphas[i] - N::from_real(hs[i - 1]) * z[i - 1]) / l[i - 1]);\n    }\n\n    l.push(N::one());", 1, ["C16"]),
 ("spline-clamped-end", "src/interp/spline.rs", "    l.push(N::from_real(hs[xs.len() - 2]) * (two - mu[xs.len() - 2]));", "    l.push(N::from_real(hs[xs.len() - 2]) * (two - mu[xs.len() - 2] * mu[xs.len() - 2] / mu[xs.len() - 2].abs().max(N::from_f64(0.4).unwrap().real().into())));", 1, ["C16"]),
 ("hermite-interp-index", "src/interp/mod.rs", "        hermite *= polynomial![N::one(), -xs[(i - 1) / 2]];", "        hermite *= polynomial![N::one(), -xs[if i == 7 { 2 } else { (i - 1) / 2 }]];", 1, ["C15"]),
 ("linear-fit-denominator", "src/optimize/mod.rs", "    let denom = m * sum_x_sq - sum_x.powi(2);", "    let denom = m * sum_x_sq - sum_x.powi(2) + sum_y_sq * N::from_f64(1e-9).unwrap();", 1, ["C17"]),
 ("lm-jac-tolerance", "src/optimize/mod.rs", "    if !damping.is_sign_positive() {\n        return Err(\"curve_fit_jac: damping must be positive\".to_owned());\n    }", "", 1, ["C17"]),
 ("legendre-recurrence", "src/special/polynomial/mod.rs", "polynomial![N::from_u32(2 * i + 1).unwrap(), N::zero()] * &p_1;", "polynomial![N::from_u32(if i == 13 { 2 * i } else { 2 * i + 1 }).unwrap(), N::zero()] * &p_1;", 1, ["C18","C14"]),
 ("stencil-weight", "src/differentiate/mod.rs", "N::from_f64(8.0).unwrap() * (f(x + h) - f(x - h))", "N::from_f64(8.000001).unwrap() * (f(x + h) - f(x - h))", 1, ["C19"]),
 ("codata-column-shift", "build.rs", "let uncert = line[85..110]", "let uncert = line[86..110]", 1, ["C20"]),
 ("newton-tol-first-component", "src/roots/mod.rs", "                if adjustment.norm() <= tol {", "                if adjustment[0].abs() <= tol {", 1, ["C08"]),
 ("roots-skip-polish-last", "src/polynomial/mod.rs", "        for root in roots.iter() {\n            corrected_roots.push_back(newton_polynomial(*root, &complex, tol, n_max)?);", "        for (ind, root) in roots.iter().enumerate() {\n            if ind + 1 == roots.len() && roots.len() > 6 {\n                corrected_roots.push_back(*root);\n                continue;\n            }\n            corrected_roots.push_back(newton_polynomial(*root, &complex, tol, n_max)?);", 1, ["C14"]),
]

def sh(cmd):
    return subprocess.run(cmd, shell=True, capture_output=True, text=True)

def main():
    only = sys.argv[1:]
    os.makedirs('/verif/sensitivity', exist_ok=True)
    path = '/verif/sensitivity/hand.json'
    out = json.load(open(path)) if os.path.exists(path) else {}
    assert sh("git -C /repo status --porcelain").stdout.strip() == '', 'repo not clean'
    for name, f, old, new, cnt, props in M:
        if only and name not in only:
            continue
        p = os.path.join('/repo', f)
        s = open(p).read()
        if s.count(old) != cnt:
            out[name] = {'error': 'pattern count %d != %d' % (s.count(old), cnt)}
            print(name, out[name]); continue
        open(p, 'w').write(s.replace(old, new))
        res = {}
        try:
            b = sh("cd /repo && CARGO_NET_OFFLINE=true cargo build --offline 2>&1 | tail -3")
            if 'error' in b.stdout:
                out[name] = {'error': 'does not compile: ' + b.stdout[-300:]}
                print(name, 'does not compile'); continue
            tests = sh('/verif/tools/repo_tests.sh').stdout
            res['suite_green'] = '72 passed' in tests and '23 passed' in tests
            for q in props:
                t0 = time.time()
                c = sh(f"cd /verif && VERIF_SEED=1 ./check {q} quick")
                last = [l for l in c.stdout.split('\n') if l.startswith(('OK', 'VIOLATION', 'reason', 'GENERATOR', 'WATCHDOG'))]
                res[q] = {'rc': c.returncode, 'wall': round(time.time() - t0, 1), 'lines': [l[:240] for l in last[-2:]]}
                print(name, q, c.returncode, flush=True)
        finally:
            sh("git -C /repo checkout -- .")
        out[name] = {'file': f, 'results': res}
        json.dump(out, open(path, 'w'), indent=1)
    assert sh("git -C /repo status --porcelain").stdout.strip() == ''

main()

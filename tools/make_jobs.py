#!/usr/bin/env python3
"""Writes the job list for tools/lab.py: every fix commit reverted individually, every hand mutant, every seeded mutant."""
import json, subprocess, os, sys, glob
sys.path.insert(0, os.path.dirname(__file__))
from hand_list import M
AREA = {
    'src/ivp': ['C01', 'C02', 'C03', 'C04', 'C05', 'C06'],
    'src/roots/mod.rs': ['C07', 'C08', 'C14'],
    'src/roots/polynomial.rs': ['C08', 'C14'],
    'src/polynomial/mod.rs': ['C11', 'C12', 'C13', 'C14', 'C15', 'C16', 'C18', 'C08'],
    'src/integrate': ['C09', 'C10'],
}
jobs = []
which = sys.argv[1:] or ['fixes', 'hand', 'seeded']
if 'fixes' in which:
    log = subprocess.run("git -C /repo log --format='%h %s' --grep '^fix:'", shell=True, capture_output=True, text=True).stdout.strip().split('\n')
    for line in log:
        sha, subj = line.split(' ', 1)
        files = subprocess.run(f"git -C /repo show --name-only --format= {sha}", shell=True, capture_output=True, text=True).stdout.split()
        props = []
        for f in files:
            for k, v in AREA.items():
                if f.startswith(k):
                    props += [p for p in v if p not in props]
        jobs.append({'name': f'revert-{sha}', 'revert': sha, 'props': sorted(props), 'subject': subj})
if 'hand' in which:
    for name, f, old, new, cnt, props in M:
        jobs.append({'name': f'hand-{name}', 'replace': {'file': f, 'old': old, 'new': new, 'count': cnt}, 'props': props})
if 'seeded' in which:
    for d in sorted(glob.glob('/verif/seeded/*')):
        meta = json.load(open(f'{d}/meta.json'))
        jobs.append({'name': 'seeded-' + os.path.basename(d), 'patch': f'{d}/patch.diff', 'props': meta.get('run_props', [meta['breaks_property']]), 'skip_suite': True})
json.dump(jobs, open('/tmp/jobs.json', 'w'), indent=1)
print(len(jobs), 'jobs')

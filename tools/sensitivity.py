#!/usr/bin/env python3
"""Re-introduces each repaired defect individually (reverse-applies one fix commit to /repo's working tree),
runs the quick checks of the affected area, and restores the tree. Writes /verif/sensitivity/fixes.json."""
import subprocess, json, os, sys, time

REPO = '/repo'
AREA = {
    'src/ivp': ['C01', 'C02', 'C03', 'C04', 'C05', 'C06'],
    'src/roots/mod.rs': ['C07', 'C08', 'C14'],
    'src/roots/polynomial.rs': ['C08', 'C14'],
    'src/polynomial/mod.rs': ['C11', 'C12', 'C13', 'C14', 'C15', 'C16', 'C18', 'C08'],
    'src/integrate': ['C09', 'C10'],
}

def sh(cmd, **kw):
    return subprocess.run(cmd, shell=True, capture_output=True, text=True, **kw)

def main():
    only = sys.argv[1:]
    log = sh(f"git -C {REPO} log --format='%h %s' --grep '^fix:'").stdout.strip().split('\n')
    assert sh(f"git -C {REPO} status --porcelain").stdout.strip() == '', 'repo not clean'
    out = {}
    os.makedirs('/verif/sensitivity', exist_ok=True)
    path = '/verif/sensitivity/fixes.json'
    if os.path.exists(path):
        out = json.load(open(path))
    for line in log:
        sha, subj = line.split(' ', 1)
        if only and sha not in only:
            continue
        files = sh(f"git -C {REPO} show --name-only --format= {sha}").stdout.split()
        props = []
        for f in files:
            for k, v in AREA.items():
                if f.startswith(k):
                    props += [p for p in v if p not in props]
        r = sh(f"git -C {REPO} show {sha} | git -C {REPO} apply -R")
        if r.returncode != 0:
            out[sha] = {'subject': subj, 'error': 'reverse patch does not apply: ' + r.stderr[:200]}
            sh(f"git -C {REPO} checkout -- .")
            continue
        res = {}
        try:
            tests = sh('/verif/tools/repo_tests.sh').stdout
            res['suite'] = '72 passed' in tests and '23 passed' in tests
            for p in sorted(props):
                t0 = time.time()
                c = sh(f"cd /verif && VERIF_SEED=1 ./check {p} quick")
                last = [l for l in c.stdout.split('\n') if l.startswith(('OK', 'VIOLATION', 'reason', 'GENERATOR', 'WATCHDOG'))]
                res[p] = {'rc': c.returncode, 'wall': round(time.time() - t0, 1), 'lines': [l[:300] for l in last[-3:]]}
                print(sha, p, c.returncode, flush=True)
        finally:
            sh(f"git -C {REPO} checkout -- .")
        out[sha] = {'subject': subj, 'results': res}
        json.dump(out, open(path, 'w'), indent=1)
    assert sh(f"git -C {REPO} status --porcelain").stdout.strip() == ''

main()

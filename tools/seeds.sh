#!/bin/sh
# usage: tools/seeds.sh <tier> <seed>...   runs every check with each seed; prints non-OK results
cd /verif || exit 2
tier=$1; shift
for seed in "$@"; do
  for p in C01 C02 C03 C04 C05 C06 C07 C08 C09 C10 C11 C12 C13 C14 C15 C16 C17 C18 C19 C20; do
    out=$(VERIF_SEED=$seed ./check $p $tier 2>&1); rc=$?
    line=$(echo "$out" | grep -E "^(OK|VIOLATION|GENERATOR|WATCHDOG)" | tail -1 | cut -c1-160)
    echo "seed=$seed $p rc=$rc $line"
  done
done

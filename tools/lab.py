#!/usr/bin/env python3
"""Mutant lab: evaluates many modified copies of the repository in parallel WITHOUT touching /repo or /verif's
evidence. Each job gets a scratch git worktree of /repo (HEAD + its patch) and a copy of the harness whose
path dependency points at that worktree; evidence/replays go to a scratch root. Everything lives under
/tmp/lab and is removed afterwards. Results are merged into /verif/sensitivity/results.json.

usage: lab.py jobs.json [--workers N] [--tier quick|thorough] [--keep]
jobs.json: [{"name": ..., "patch": "/path/to.diff" | null, "revert": "<sha>" | null,
             "replace": {"file":..., "old":..., "new":..., "count":1} | null, "props": ["C01", ...]}]
"""
import json, os, shutil, subprocess, sys, time
from multiprocessing import Pool

LAB = os.environ.get('LAB_DIR', '/tmp/lab')
BIN = {**{p: 'ivp' for p in ['C01', 'C02', 'C03', 'C04', 'C05', 'C06']}, 'C07': 'roots', 'C08': 'roots', 'C14': 'roots',
       'C09': 'quad', 'C10': 'quad', 'C11': 'poly', 'C12': 'poly', 'C13': 'poly', 'C18': 'poly', 'C15': 'interp',
       'C16': 'interp', 'C17': 'fit', 'C19': 'misc', 'C20': 'misc'}


def sh(cmd, env=None, timeout=None):
    """run in its own process group; on timeout the whole group is killed (a hanging test binary of a mutated
    tree must not survive its cargo parent)"""
    import signal
    e = dict(os.environ)
    if env:
        e.update(env)
    p = subprocess.Popen(cmd, shell=True, stdout=subprocess.PIPE, stderr=subprocess.PIPE, text=True, env=e, start_new_session=True)
    try:
        out, err = p.communicate(timeout=timeout)
    except subprocess.TimeoutExpired:
        try:
            os.killpg(p.pid, signal.SIGKILL)
        except ProcessLookupError:
            pass
        p.communicate()
        raise
    return subprocess.CompletedProcess(cmd, p.returncode, out, err)


def run_job(args):
    job, worker, tier, keep = args
    name = job['name']
    d = f'{LAB}/{name}'
    res = {'name': name, 'props': {}}
    try:
        shutil.rmtree(d, ignore_errors=True)
        sh('git -C /repo worktree prune')
        os.makedirs(d)
        r = sh(f'git -C /repo worktree add -q --detach {d}/repo HEAD')
        if r.returncode != 0:
            res['error'] = 'worktree: ' + r.stderr[-300:]
            return res
        if job.get('patch'):
            r = sh(f'git -C {d}/repo apply {job["patch"]}')
            if r.returncode != 0:
                res['error'] = 'patch does not apply: ' + r.stderr[-300:]
                return res
        if job.get('revert'):
            r = sh(f'git -C /repo show {job["revert"]} | git -C {d}/repo apply -R')
            if r.returncode != 0:
                res['error'] = 'reverse patch does not apply: ' + r.stderr[-300:]
                return res
        if job.get('replace'):
            rp = job['replace']
            fp = os.path.join(d, 'repo', rp['file'])
            s = open(fp).read()
            if s.count(rp['old']) != rp.get('count', 1):
                res['error'] = 'pattern count %d' % s.count(rp['old'])
                return res
            open(fp, 'w').write(s.replace(rp['old'], rp['new']))
        # the suite of the modified tree (own target dir inside the worktree, shared per worker would clash)
        tdir = f'{LAB}/target_w{worker}'
        env = {'CARGO_NET_OFFLINE': 'true', 'CARGO_TARGET_DIR': f'{tdir}/repo_tests'}
        if not job.get('skip_suite'):
            t = sh(f'cd {d}/repo && cargo test --offline 2>&1 | grep -E "^test result|^error" | head -5', env=env, timeout=1800)
            res['suite'] = t.stdout.strip().replace('\n', ' | ')[:400]
            res['suite_green'] = ('72 passed' in t.stdout and '23 passed' in t.stdout and 'error' not in t.stdout)
        # harness copy
        shutil.copytree('/verif/harness', f'{d}/harness', ignore=shutil.ignore_patterns('target'))
        for fn, a, b in [('Cargo.toml', 'path = "/repo"', f'path = "{d}/repo"'),
                         ('src/bin/quad/main.rs', '#[path = "/repo/src/integrate/tables.rs"]', f'#[path = "{d}/repo/src/integrate/tables.rs"]')]:
            fp = f'{d}/harness/{fn}'
            s = open(fp).read()
            assert a in s
            open(fp, 'w').write(s.replace(a, b))
        root = f'{d}/root'
        os.makedirs(root)
        shutil.copy('/verif/known_findings.json', root)
        if os.path.isdir('/verif/corpus'):
            shutil.copytree('/verif/corpus', f'{root}/corpus')
        env = {'CARGO_NET_OFFLINE': 'true', 'CARGO_TARGET_DIR': f'{tdir}/harness', 'BVERIF_ROOT': root, 'BVERIF_REPO': f'{d}/repo'}
        bins = sorted({BIN[p] for p in job['props']})
        for b in bins:
            r = sh(f'cd {d}/harness && cargo build --release --offline --bin {b} 2>&1 | tail -5', env=env, timeout=3600)
            if 'Finished' not in r.stdout:
                res['error'] = f'harness build ({b}) failed: ' + r.stdout[-400:]
                return res
        for p in job['props']:
            t0 = time.time()
            try:
                c = sh(f'{tdir}/harness/release/{BIN[p]} {p} --tier {tier} --seed {job.get("seed", 1)}', env=env, timeout=job.get('timeout', 3600))
                lines = [l for l in c.stdout.split('\n') if l.startswith(('OK', 'VIOLATION', 'reason', 'GENERATOR', 'WATCHDOG', 'KNOWN'))]
                res['props'][p] = {'rc': c.returncode, 'wall': round(time.time() - t0, 1), 'lines': [l[:300] for l in lines[-3:]]}
                # harvest the shrunk failing case as a regression case (LAB_SAVE_REPLAYS=<dir>): it passes on the unchanged
                # tree and fails under this change, so replaying it first makes the detection independent of the seed
                save = os.environ.get('LAB_SAVE_REPLAYS')
                if save and c.returncode == 1:
                    for l in lines:
                        if l.startswith('VIOLATION') and 'replay=' in l:
                            rp = l.split('replay=')[1].strip()
                            if os.path.exists(rp):
                                os.makedirs(f'{save}/{p}', exist_ok=True)
                                shutil.copy(rp, f'{save}/{p}/{name}.json')
            except subprocess.TimeoutExpired:
                res['props'][p] = {'rc': 'timeout', 'wall': round(time.time() - t0, 1), 'lines': []}
        return res
    except Exception as e:  # noqa
        res['error'] = repr(e)[:300]
        return res
    finally:
        if not keep:
            sh(f'git -C /repo worktree remove --force {d}/repo')
            shutil.rmtree(d, ignore_errors=True)


def main():
    args = sys.argv[1:]
    jobs = json.load(open(args[0]))
    workers = int(args[args.index('--workers') + 1]) if '--workers' in args else 4
    tier = args[args.index('--tier') + 1] if '--tier' in args else 'quick'
    keep = '--keep' in args
    os.makedirs(LAB, exist_ok=True)
    os.makedirs('/verif/sensitivity', exist_ok=True)
    out_path = os.environ.get('LAB_OUT', '/verif/sensitivity/results.json')
    out = json.load(open(out_path)) if os.path.exists(out_path) else {}
    work = [(j, i % workers, tier, keep) for i, j in enumerate(jobs)]
    # one job per worker at a time: chunk by worker id
    with Pool(workers) as pool:
        for res in pool.imap_unordered(run_job_serialised, [[w for w in work if w[1] == k] for k in range(workers)]):
            for r in res:
                out[r['name']] = r
            json.dump(out, open(out_path, 'w'), indent=1)
    sh('git -C /repo worktree prune')


def run_job_serialised(items):
    res = []
    for it in items:
        r = run_job(it)
        res.append(r)
        print(r['name'], r.get('error', ''), {p: v['rc'] for p, v in r['props'].items()}, 'suite_green=%s' % r.get('suite_green'), flush=True)
        # incremental persistence per worker
        try:
            p = f'/verif/sensitivity/partial_{items[0][1]}.json'
            json.dump(res, open(p, 'w'), indent=1)
        except Exception:
            pass
    return res


if __name__ == '__main__':
    main()

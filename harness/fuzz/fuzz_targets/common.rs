//! Shared byte decoders for the libFuzzer companions of the polynomial checks.
use arbitrary::Unstructured;

pub fn val(u: &mut Unstructured) -> arbitrary::Result<(f64, f64)> {
    let pick = |u: &mut Unstructured| -> arbitrary::Result<f64> {
        Ok(match u.int_in_range(0u8..=7)? {
            0 => 0.0,
            1 => u.int_in_range(-16i32..=16)? as f64 * 0.25,
            2 => u.int_in_range(-1000i32..=1000)? as f64 * 1e-3,
            3 => 1e-11 * u.int_in_range(1i32..=99)? as f64,
            4 => u.int_in_range(-4000i32..=4000)? as f64 * 1e-3 + 1e-7,
            5 => u.int_in_range(-999i32..=999)? as f64,
            6 => -0.0,
            _ => f64::from_bits(0x3FF0000000000000 | (u.arbitrary::<u64>()? >> 12)) - 1.5,
        })
    };
    Ok((pick(u)?, pick(u)?))
}

pub fn coefs(u: &mut Unstructured, max: usize) -> arbitrary::Result<Vec<(f64, f64)>> {
    let n = u.int_in_range(1..=max)?;
    // shapes: 0 free, 1 even powers only, 2 every third power, 3 leading entry tiny, 4 purely imaginary
    let shape = u.int_in_range(0u8..=4)?;
    let mut v = Vec::with_capacity(n);
    for k in 0..n {
        let mut c = val(u)?;
        match shape {
            1 if k % 2 == 1 => c = (0.0, 0.0),
            2 if k % 3 != 0 => c = (0.0, 0.0),
            4 => c = (0.0, c.1),
            _ => {}
        }
        v.push(c);
    }
    if shape == 3 {
        let l = v.last_mut().unwrap();
        *l = (l.0 * 1e-12, l.1 * 1e-12);
    }
    Ok(v)
}

pub fn report(prop: &str, target: &str, reason: String, case: serde_json::Value) -> ! {
    let root = bverif::engine::verif_root();
    let _ = std::fs::create_dir_all(root.join("replays"));
    let path = root.join("replays").join(format!("{prop}-fuzz.json"));
    let v = serde_json::json!({"property": prop, "origin": format!("libFuzzer target {target}"), "reason": reason, "case": case});
    let _ = std::fs::write(&path, serde_json::to_string_pretty(&v).unwrap());
    eprintln!("FUZZ-VIOLATION property={prop} replay={}", path.display());
    std::process::abort();
}

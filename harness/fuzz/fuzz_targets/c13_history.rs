//! Coverage-guided companion of the C13 edit-history check: bytes are decoded into the same `Case`
//! structure and judged by the same oracle (`c13::run_case`). A failing input is written as a JSON replay
//! (same format as the proptest engine's) before the target aborts.
#![no_main]
#![allow(dead_code)]

#[path = "../../src/bin/poly/c11.rs"]
mod c11;
#[path = "../../src/bin/poly/c13.rs"]
mod c13;

use arbitrary::Unstructured;
use c13::{Case, Op};
use libfuzzer_sys::fuzz_target;

fn val(u: &mut Unstructured) -> arbitrary::Result<(f64, f64)> {
    let pick = |u: &mut Unstructured| -> arbitrary::Result<f64> {
        Ok(match u.int_in_range(0u8..=5)? {
            0 => 0.0,
            1 => u.int_in_range(-16i32..=16)? as f64 * 0.25,
            2 => u.int_in_range(-1000i32..=1000)? as f64 * 1e-3,
            3 => 1e-11 * u.int_in_range(1i32..=99)? as f64,
            4 => u.int_in_range(-4000i32..=4000)? as f64 * 1e-3 + 1e-7,
            _ => f64::from_bits(0x3FF0000000000000 | (u.arbitrary::<u64>()? >> 12)) - 1.5,
        })
    };
    Ok((pick(u)?, pick(u)?))
}

fn nonzero(u: &mut Unstructured) -> arbitrary::Result<(f64, f64)> {
    let m = 0.25 + u.int_in_range(0i32..=15)? as f64 * 0.25;
    let s = if u.arbitrary::<bool>()? { 1.0 } else { -1.0 };
    Ok((m * s, u.int_in_range(-8i32..=8)? as f64 * 0.25))
}

fn coefs(u: &mut Unstructured, max: usize) -> arbitrary::Result<Vec<(f64, f64)>> {
    let n = u.int_in_range(1..=max)?;
    (0..n).map(|_| val(u)).collect()
}

fn decode(data: &[u8]) -> arbitrary::Result<Case> {
    let mut u = Unstructured::new(data);
    let complex = u.arbitrary::<bool>()?;
    let coef = coefs(&mut u, 12)?;
    let tol = 10f64.powi(-(u.int_in_range(8i32..=14)?));
    let x = val(&mut u)?;
    let x = (x.0.clamp(-1.4, 1.4), x.1.clamp(-1.4, 1.4));
    let abc = (val(&mut u)?.0.clamp(-2.0, 2.0), val(&mut u)?.0.clamp(-2.0, 2.0), val(&mut u)?.0.clamp(-2.0, 2.0));
    let constant = val(&mut u)?;
    let nops = u.int_in_range(0usize..=40)?;
    let mut ops = Vec::with_capacity(nops);
    for _ in 0..nops {
        if u.is_empty() {
            break;
        }
        ops.push(match u.int_in_range(0u8..=16)? {
            0 => Op::Set(u.int_in_range(0u32..=40)?, val(&mut u)?),
            1 => Op::Purge(u.int_in_range(0usize..=45)?),
            2 => Op::PurgeRel(u.int_in_range(0usize..=3)?),
            3 => Op::PurgeLeading,
            4 => Op::AddScalar(val(&mut u)?),
            5 => Op::SubScalar(val(&mut u)?),
            6 => Op::MulScalar(nonzero(&mut u)?),
            7 => Op::DivScalar(nonzero(&mut u)?),
            8 => Op::AddPoly(coefs(&mut u, 8)?),
            9 => Op::SubPoly(coefs(&mut u, 8)?),
            10 => Op::MulLinear(nonzero(&mut u)?, val(&mut u)?),
            11 => Op::Derivative,
            12 => Op::Antiderivative(val(&mut u)?),
            13 => Op::RoundTrip,
            15 => Op::MulPoly(nonzero(&mut u)?, coefs(&mut u, 5)?),
            16 => Op::AddVar(coefs(&mut u, 8)?, u.int_in_range(0u8..=7)?, [-3i8, 0, 3][u.int_in_range(0usize..=2)?]),
            _ => Op::Neg,
        });
    }
    Ok(Case { complex, coef, tol, x, abc, constant, ops })
}

fuzz_target!(|data: &[u8]| {
    let Ok(case) = decode(data) else { return };
    let out = c13::run_case(&case);
    if out.is_fail() {
        let root = bverif::engine::verif_root();
        let _ = std::fs::create_dir_all(root.join("replays"));
        let path = root.join("replays").join("C13-fuzz.json");
        let v = serde_json::json!({"property": "C13", "origin": "libFuzzer target c13_history", "reason": format!("{:?}", out.verdict), "case": case});
        let _ = std::fs::write(&path, serde_json::to_string_pretty(&v).unwrap());
        eprintln!("FUZZ-VIOLATION property=C13 replay={}", path.display());
        std::process::abort();
    }
});

//! Coverage-guided companion of the C12 division check: bytes are decoded into the same `Case` structure and
//! judged by the same oracle (`c12::run_case`).
#![no_main]
#![allow(dead_code)]

#[path = "../../src/bin/poly/c11.rs"]
mod c11;
#[path = "../../src/bin/poly/c12.rs"]
mod c12;
#[path = "common.rs"]
mod common;

use arbitrary::Unstructured;
use c12::Case;
use libfuzzer_sys::fuzz_target;

fn decode(data: &[u8]) -> arbitrary::Result<Case> {
    let mut u = Unstructured::new(data);
    let complex = u.arbitrary::<bool>()?;
    let kind = match u.int_in_range(0u8..=11)? {
        0..=5 => 0,
        6..=8 => 1,
        9 => 2,
        10 => 3,
        _ => 4,
    };
    let d = common::coefs(&mut u, 12)?;
    let mut a = common::coefs(&mut u, 30)?;
    if kind == 1 {
        a.truncate(41 - d.len() + 1);
    }
    let tol = 10f64.powi(-(u.int_in_range(8i32..=14)?));
    let dtol_exp = [0i8, 0, 0, 3, -3][u.int_in_range(0usize..=4)?];
    Ok(Case { complex, kind, a, d, tol, dtol_exp })
}

fuzz_target!(|data: &[u8]| {
    let Ok(case) = decode(data) else { return };
    let out = c12::run_case(&case);
    if out.is_fail() {
        common::report("C12", "c12_division", format!("{:?}", out.verdict), serde_json::to_value(&case).unwrap());
    }
});

//! Coverage-guided companion of the C11 arithmetic check: bytes are decoded into the same `Case` structure and
//! judged by the same oracle (`c11::run_case`).
#![no_main]
#![allow(dead_code)]

#[path = "../../src/bin/poly/c11.rs"]
mod c11;
#[path = "common.rs"]
mod common;

use arbitrary::Unstructured;
use c11::Case;
use libfuzzer_sys::fuzz_target;

fn decode(data: &[u8]) -> arbitrary::Result<Case> {
    let mut u = Unstructured::new(data);
    let complex = u.arbitrary::<bool>()?;
    let a = common::coefs(&mut u, 40)?;
    let b = common::coefs(&mut u, 40)?;
    let tol_abs = u.arbitrary::<bool>()?;
    let tol = if tol_abs { 10f64.powi(-(u.int_in_range(6i32..=14)?)) } else { 10f64.powf(0.5 + u.int_in_range(0i32..=35)? as f64 * 0.1) };
    let s = common::val(&mut u)?;
    let scalar = (s.0.clamp(-3.0, 3.0), s.1.clamp(-3.0, 3.0));
    let x = common::val(&mut u)?;
    let x = (x.0.clamp(-0.7, 0.7), x.1.clamp(-0.7, 0.7));
    let dft_extra = u.int_in_range(0usize..=64)?;
    Ok(Case { complex, a, b, tol, tol_abs, scalar, x, dft_extra })
}

fuzz_target!(|data: &[u8]| {
    let Ok(case) = decode(data) else { return };
    let out = c11::run_case(&case);
    if out.is_fail() {
        common::report("C11", "c11_product", format!("{:?}", out.verdict), serde_json::to_value(&case).unwrap());
    }
});

pub mod engine;
pub mod refs;

mod c11;
mod c12;
mod c13;
mod c18;

fn main() {
    let opts = bverif::engine::parse_args();
    let code = match opts.prop.as_str() {
        "C11" => c11::run(&opts),
        "C12" => c12::run(&opts),
        "C13" => c13::run(&opts),
        "C18" => c18::run(&opts),
        p => {
            eprintln!("poly: unknown property {p}");
            2
        }
    };
    std::process::exit(code);
}

//! C13 — evaluation, calculus and coefficient access are mutually consistent; edit histories
//! are compared step by step with a reference coefficient map.

use crate::c11::{coef_vec, coefs, mk, Fld};
use bacon_sci::polynomial::Polynomial;
use bverif::engine::*;
use bverif::refs::num::*;
use proptest::prelude::*;
use serde::{Deserialize, Serialize};

#[derive(Clone, Debug, Serialize, Deserialize)]
pub enum Op {
    Set(u32, (f64, f64)),
    Purge(usize),
    /// purge at len-1+off (off = 0: leading term, 1: one past the end, ...)
    PurgeRel(usize),
    PurgeLeading,
    AddScalar((f64, f64)),
    SubScalar((f64, f64)),
    MulScalar((f64, f64)),
    DivScalar((f64, f64)),
    AddPoly(Vec<(f64, f64)>),
    SubPoly(Vec<(f64, f64)>),
    MulLinear((f64, f64), (f64, f64)),
    /// product with a polynomial of degree 2..6 (FFT path): leading coefficient, lower coefficients ascending
    MulPoly((f64, f64), Vec<(f64, f64)>),
    Derivative,
    Antiderivative((f64, f64)),
    RoundTrip,
    Neg,
    /// sum or difference through one of the binary operator forms - variant & 1: subtraction, & 2: borrowed left operand,
    /// & 4: borrowed right operand - with the right operand carrying the tolerance tol * 10^exp: the result is formed
    /// under the left operand's tolerance
    AddVar(Vec<(f64, f64)>, u8, i8),
}

#[derive(Clone, Debug, Serialize, Deserialize)]
pub struct Case {
    pub complex: bool,
    pub coef: Vec<(f64, f64)>,
    pub tol: f64,
    pub x: (f64, f64),
    pub abc: (f64, f64, f64),
    pub constant: (f64, f64),
    pub ops: Vec<Op>,
}

const MAXLEN: usize = 64;

fn purge_leading_model(m: &mut Vec<C64>, tol: f64) {
    while m.len() > 1 && m.last().unwrap().re.abs() <= tol && m.last().unwrap().im.abs() <= tol {
        m.pop();
    }
}

/// naive power-sum evaluation (a different algorithm from Horner) and its scale
fn power_sum(cf: &[C64], x: C64) -> (C64, f64) {
    let mut p = c(1.0, 0.0);
    let mut acc = c(0.0, 0.0);
    let mut scale = 0.0;
    for a in cf {
        acc += a * p;
        scale += a.norm() * p.norm();
        p *= x;
    }
    (acc, scale)
}

fn run_field<N: Fld>(case: &Case, mut o: Obs) -> Outcome {
    let z = |p: &(f64, f64)| if N::COMPLEX { c(p.0, p.1) } else { c(p.0, 0.0) };
    let a: Vec<C64> = case.coef.iter().map(z).collect();
    let tol = case.tol;
    let n = a.len();
    let p: Polynomial<N> = mk(&a, tol);

    // round trip
    {
        let desc: Vec<N> = a.iter().rev().map(|&v| N::from_c(v)).collect();
        let back = Polynomial::<N>::from_slice(&desc).get_coefficients();
        if back.len() != desc.len() || back.iter().zip(desc.iter()).any(|(u, v)| u.to_c() != v.to_c()) {
            return o.fail("from_slice / get_coefficients does not round-trip");
        }
        for k in 0..n + 3 {
            let want = a.get(k).copied().unwrap_or(c(0.0, 0.0));
            if p.get_coefficient(k).to_c() != want {
                return o.fail(format!("get_coefficient({k}) = {:e}, expected {want:e}", p.get_coefficient(k).to_c()));
            }
        }
        if p.order() != n - 1 {
            return o.fail("order() of a freshly built polynomial");
        }
    }
    // conversions: make_complex / From keep coefficients and tolerance; From<scalar>; Zero
    {
        use num_traits::Zero;
        let pc = p.make_complex();
        if pc.order() != p.order() || pc.get_tolerance() != p.get_tolerance() || (0..n + 2).any(|k| pc.get_coefficient(k) != p.get_coefficient(k).to_c()) {
            return o.fail("make_complex changes coefficients, order or tolerance");
        }
        let ps: Polynomial<N> = Polynomial::from(N::from_c(a[0]));
        if ps.order() != 0 || ps.get_coefficient(0).to_c() != a[0] {
            return o.fail("From<scalar> does not give the constant polynomial");
        }
        let zp: Polynomial<N> = Polynomial::zero();
        if !zp.is_zero() || zp.order() != 0 {
            return o.fail("Polynomial::zero() is not the zero polynomial");
        }
        let all_zero = a.iter().all(|v| v.re == 0.0 && v.im == 0.0);
        if p.is_zero() != all_zero {
            return o.fail("is_zero() disagrees with the coefficients");
        }
        let sum = (&p + &zp).get_coefficients();
        if sum.len() != n || sum.iter().rev().zip(a.iter()).any(|(u, v)| u.to_c() != *v) {
            return o.fail("p + 0 != p");
        }
        let pw: Polynomial<N> = Polynomial::with_capacity(8);
        if !pw.is_zero() || pw.order() != 0 {
            return o.fail("with_capacity() is not the zero polynomial");
        }
    }
    // evaluation
    let x = z(&case.x);
    let gam = |k: usize| 4.0 * (k as f64 + 2.0) * EPS;
    let (want, scale) = power_sum(&a, x);
    let got = p.evaluate(N::from_c(x)).to_c();
    let eb = 2.0 * gam(2 * n) * scale;
    if !((got - want).norm() <= eb) {
        return o.fail(format!("evaluate({x}) = {got:e}, coefficient expansion gives {want:e} (|diff| {:e} > {eb:e})", (got - want).norm()));
    }
    o.set("ratio_eval", if eb > 0.0 { (got - want).norm() / eb } else { 0.0 });
    // derivative consistency
    let da = deriv_coeffs_c(&a, 1);
    let (dwant, dscale) = power_sum(&da, x);
    let (v2, d2) = p.evaluate_derivative(N::from_c(x));
    let deb = 2.0 * gam(4 * n) * dscale + 1e-300;
    if !((v2.to_c() - want).norm() <= eb) {
        return o.fail(format!("evaluate_derivative({x}).0 = {:e}, expected value {want:e}", v2.to_c()));
    }
    if !((d2.to_c() - dwant).norm() <= deb) {
        return o.fail(format!("evaluate_derivative({x}).1 = {:e}, term-wise derivative gives {dwant:e} (|diff| {:e} > {deb:e})", d2.to_c(), (d2.to_c() - dwant).norm()));
    }
    o.set("ratio_deriv_eval", (d2.to_c() - dwant).norm() / deb);
    let dp = p.derivative();
    {
        let g = coefs(&dp, n + 2);
        for k in 0..n + 2 {
            let w = da.get(k).copied().unwrap_or(c(0.0, 0.0));
            if !((g[k] - w).norm() <= 4.0 * EPS * w.norm()) {
                return o.fail(format!("derivative(): coefficient of x^{k} is {:e}, term-wise calculus gives {w:e}", g[k]));
            }
        }
        let dv = dp.evaluate(N::from_c(x)).to_c();
        if !((dv - dwant).norm() <= deb) {
            return o.fail("derivative().evaluate(x) disagrees with term-wise derivative");
        }
    }
    // antiderivative
    let cst = z(&case.constant);
    let ap = p.antiderivative(N::from_c(cst));
    {
        if ap.evaluate(N::from_c(c(0.0, 0.0))).to_c() != cst {
            return o.fail("antiderivative(c)(0) != c");
        }
        let g = coefs(&ap, n + 3);
        for k in 0..n {
            let w = a[k] / (k as f64 + 1.0);
            if !((g[k + 1] - w).norm() <= 4.0 * EPS * w.norm()) {
                return o.fail(format!("antiderivative: coefficient of x^{} is {:e}, expected {w:e}", k + 1, g[k + 1]));
            }
        }
        if g[n + 1].norm() != 0.0 || g[n + 2].norm() != 0.0 {
            return o.fail("antiderivative has spurious high coefficients");
        }
        let back = coefs(&ap.derivative(), n + 2);
        for k in 0..n + 2 {
            let w = a.get(k).copied().unwrap_or(c(0.0, 0.0));
            if !((back[k] - w).norm() <= 4.0 * EPS * w.norm()) {
                return o.fail(format!("antiderivative(c).derivative(): coefficient {k} is {:e}, original {w:e}", back[k]));
            }
        }
    }
    // definite integrals: F(b) - F(a), additivity
    {
        let (ia, ib, ic) = (c(case.abc.0, 0.0), c(case.abc.1, 0.0), c(case.abc.2, 0.0));
        let anti: Vec<C64> = std::iter::once(c(0.0, 0.0)).chain(a.iter().enumerate().map(|(k, v)| v / (k as f64 + 1.0))).collect();
        let f = |t: C64| power_sum(&anti, t);
        let integ = |l: C64, u: C64| p.integrate(N::from_c(l), N::from_c(u)).to_c();
        let (fa, sa) = f(ia);
        let (fb, sb) = f(ib);
        let (fc, sc) = f(ic);
        let g = 2.0 * gam(2 * n + 2);
        let i_ab = integ(ia, ib);
        let i_bc = integ(ib, ic);
        let i_ac = integ(ia, ic);
        if !((i_ab - (fb - fa)).norm() <= g * (sa + sb) + 1e-290) {
            return o.fail(format!("integrate(a,b) = {i_ab:e} but F(b)-F(a) = {:e}", fb - fa));
        }
        if !((i_ab + i_bc - i_ac).norm() <= g * (sa + 2.0 * sb + 2.0 * sc + sa) + 1e-290) {
            return o.fail(format!("integrals not additive: {i_ab:e} + {i_bc:e} != {i_ac:e}"));
        }
        if !((integ(ib, ia) + i_ab).norm() <= g * 2.0 * (sa + sb) + 1e-290) {
            return o.fail("integrate(b,a) != -integrate(a,b)");
        }
        let _ = (fc, sc);
        // short panels: nearly coincident end points (half the polynomial's zero tolerance, just below the default
        // tolerance 1e-10, 1e-13) - the integral is small, not zero, and stays additive
        for delta in [0.5 * tol, 0.9e-10, 1e-13] {
            let id = ia + c(delta, 0.0);
            if id == ia {
                continue;
            }
            let (fd, sd) = f(id);
            let i_ad = integ(ia, id);
            // (1e-290: differences of denormal size carry no relative accuracy)
            if !((i_ad - (fd - fa)).norm() <= g * (sa + sd) + 1e-290) {
                return o.fail(format!("short panel: integrate(a, a+{delta:e}) = {i_ad:e} but F(a+d)-F(a) = {:e} (allowed {:e})", fd - fa, g * (sa + sd)));
            }
            let i_db = integ(id, ib);
            if !((i_ad + i_db - i_ab).norm() <= g * (2.0 * sa + 2.0 * sd + 2.0 * sb) + 1e-290) {
                return o.fail(format!("integrals not additive over a short first panel of width {delta:e}: {i_ad:e} + {i_db:e} != {i_ab:e}"));
            }
            if (fd - fa).norm() > 4.0 * g * (sa + sd) {
                o.label("short-panel-resolved");
            }
        }
    }

    // ---- edit history against the reference coefficient map
    // (real field: real operations, so that the model performs the same single IEEE operations)
    let mulz = |a: C64, b: C64| if N::COMPLEX { a * b } else { c(a.re * b.re, 0.0) };
    let divz = |a: C64, b: C64| if N::COMPLEX { a / b } else { c(a.re / b.re, 0.0) };
    let mut q = p.clone();
    let mut m = a.clone();
    let mut special = false;
    for (step, op) in case.ops.iter().enumerate() {
        let before_len = m.len();
        let res = guard(|| {
            let mut q2 = q.clone();
            match op {
                Op::Set(pw, v) => q2.set_coefficient(*pw, N::from_c(z(v))),
                Op::Purge(pw) => q2.purge_coefficient(*pw),
                Op::PurgeRel(off) => q2.purge_coefficient(q2.order() + off),
                Op::PurgeLeading => q2.purge_leading(),
                Op::AddScalar(v) => q2 += N::from_c(z(v)),
                Op::SubScalar(v) => q2 -= N::from_c(z(v)),
                Op::MulScalar(v) => q2 *= N::from_c(z(v)),
                Op::DivScalar(v) => q2 /= N::from_c(z(v)),
                Op::AddPoly(v) => q2 += mk::<N>(&v.iter().map(z).collect::<Vec<_>>(), tol),
                Op::SubPoly(v) => q2 -= &mk::<N>(&v.iter().map(z).collect::<Vec<_>>(), tol),
                Op::MulLinear(c1, c0) => q2 *= mk::<N>(&[z(c0), z(c1)], tol),
                Op::MulPoly(lead, low) => {
                    let mut v: Vec<C64> = low.iter().take(6).map(z).collect();
                    while v.len() < 2 {
                        v.push(c(1.0, 0.0));
                    }
                    v.push(z(lead));
                    q2 *= mk::<N>(&v, tol)
                }
                Op::Derivative => q2 = q2.derivative(),
                Op::Antiderivative(v) => q2 = q2.antiderivative(N::from_c(z(v))),
                Op::RoundTrip => {
                    let t = q2.get_tolerance();
                    q2 = Polynomial::from_slice(&q2.get_coefficients());
                    q2.set_tolerance(t).unwrap();
                }
                Op::Neg => q2 = -q2,
                Op::AddVar(v, var, e) => {
                    let rhs = mk::<N>(&v.iter().map(z).collect::<Vec<_>>(), tol * 10f64.powi(*e as i32));
                    q2 = match var & 7 {
                        0 => q2 + rhs,
                        1 => q2 - rhs,
                        2 => &q2 + rhs,
                        3 => &q2 - rhs,
                        4 => q2 + &rhs,
                        5 => q2 - &rhs,
                        6 => &q2 + &rhs,
                        _ => &q2 - &rhs,
                    };
                }
            }
            q2
        });
        // the model
        let mut absent_purge = false;
        let mut fft_noise = 0.0f64;
        match op {
            Op::Set(pw, v) => {
                let pw = *pw as usize;
                if m.len() <= pw {
                    m.resize(pw + 1, c(0.0, 0.0));
                }
                m[pw] = z(v);
            }
            Op::Purge(pw) => {
                if *pw < m.len() {
                    m[*pw] = c(0.0, 0.0);
                } else {
                    absent_purge = true;
                }
            }
            Op::PurgeRel(off) => {
                // relative to the implementation's current order (>= the model's degree)
                let pw = q.order() + off;
                if pw < m.len() {
                    m[pw] = c(0.0, 0.0);
                } else {
                    absent_purge = true;
                }
            }
            Op::PurgeLeading => purge_leading_model(&mut m, tol),
            Op::AddScalar(v) => m[0] += z(v),
            Op::SubScalar(v) => m[0] -= z(v),
            Op::MulScalar(v) => m.iter_mut().for_each(|t| *t = mulz(*t, z(v))),
            Op::DivScalar(v) => m.iter_mut().for_each(|t| *t = divz(*t, z(v))),
            Op::AddPoly(v) => {
                if m.len() < v.len() {
                    m.resize(v.len(), c(0.0, 0.0));
                }
                for (k, t) in v.iter().enumerate() {
                    m[k] += z(t);
                }
            }
            Op::SubPoly(v) => {
                if m.len() < v.len() {
                    m.resize(v.len(), c(0.0, 0.0));
                }
                for (k, t) in v.iter().enumerate() {
                    m[k] -= z(t);
                }
            }
            Op::MulLinear(c1, c0) => {
                let mut r = vec![c(0.0, 0.0); m.len() + 1];
                for k in 0..m.len() {
                    r[k + 1] = mulz(m[k], z(c1));
                }
                for k in 0..m.len() {
                    r[k] += mulz(m[k], z(c0));
                }
                m = r;
            }
            Op::MulPoly(lead, low) => {
                let mut v: Vec<C64> = low.iter().take(6).map(z).collect();
                while v.len() < 2 {
                    v.push(c(1.0, 0.0));
                }
                v.push(z(lead));
                // schoolbook product; the implementation's FFT product is compared within the C11 noise bound
                let nfft = (2 * m.len().max(q.order() + 1).max(v.len())).next_power_of_two() as f64;
                let (n1m, n1v): (f64, f64) = (m.iter().map(|t| t.norm()).sum(), v.iter().map(|t| t.norm()).sum());
                fft_noise = (16.0 + nfft) * EPS * n1m * n1v;
                let mut r = vec![c(0.0, 0.0); m.len() + v.len() - 1];
                for (i, a) in m.iter().enumerate() {
                    for (j, b) in v.iter().enumerate() {
                        r[i + j] += mulz(*a, *b);
                    }
                }
                m = r;
                o.label("history-fft-product");
            }
            Op::Derivative => m = deriv_coeffs_c(&m, 1),
            Op::Antiderivative(v) => {
                let mut r = vec![z(v)];
                r.extend(m.iter().enumerate().map(|(k, t)| t * (1.0 / (k as f64 + 1.0))));
                m = r;
            }
            Op::RoundTrip | Op::Neg => {
                if matches!(op, Op::Neg) {
                    m.iter_mut().for_each(|t| *t = -*t);
                }
            }
            Op::AddVar(v, var, _) => {
                if m.len() < v.len() {
                    m.resize(v.len(), c(0.0, 0.0));
                }
                for (k, t) in v.iter().enumerate() {
                    if var & 1 == 0 {
                        m[k] += z(t);
                    } else {
                        m[k] -= z(t);
                    }
                }
                o.label("binary-operator-mixed-tolerance");
            }
        }
        if absent_purge {
            special = true;
            o.label("purge-absent");
        }
        if matches!(op, Op::Purge(pw) if *pw + 1 == before_len) || matches!(op, Op::PurgeRel(0)) {
            o.label("purge-leading-term");
        }
        let q2 = match res {
            Ok(q2) => q2,
            Err(Caught::Panic(msg)) => return o.fail(format!("step {step} {op:?} panicked: {msg}")),
            Err(Caught::Budget(_)) => return o.fail("unexpected budget signal"),
        };
        q = q2;
        // no operation of the history changes the tolerance the polynomial was given
        if q.get_tolerance() != tol {
            return o.fail(format!("after step {step} {op:?}: get_tolerance() = {:e}, the polynomial was created with {tol:e}", q.get_tolerance()));
        }
        // compare as coefficient maps
        let upto = m.len().max(q.order() + 1) + 2;
        let g = coefs(&q, upto);
        let mscale: f64 = m.iter().map(|t| t.norm()).fold(0.0, f64::max);
        for k in 0..upto {
            let w = m.get(k).copied().unwrap_or(c(0.0, 0.0));
            // same single IEEE operations on both sides -> a few ulps; the tolerance-driven
            // purge_leading may zero coefficients within tol on either side
            let ok = (g[k] - w).norm() <= 8.0 * EPS * w.norm()
                || (matches!(op, Op::PurgeLeading) && (g[k] - w).norm() <= 1.5 * tol && (g[k].norm() == 0.0 || w.norm() == 0.0))
                || (matches!(op, Op::MulPoly(..)) && (g[k] - w).norm() <= fft_noise + if k > q.order() { 1.5 * tol } else { 0.0 });
            if !ok {
                return o.fail(format!("after step {step} {op:?}: coefficient of x^{k} is {:e}, reference map has {w:e} (scale {mscale:e})", g[k]));
            }
        }
        if q.order() + 1 < m.len() && m[q.order() + 1..].iter().any(|t| t.norm() > 1.5 * tol + fft_noise) {
            return o.fail(format!("after step {step} {op:?}: order() = {} is below the reference degree", q.order()));
        }
        // re-synchronise: every step is judged against the implementation's own previous state, so that
        // rounding-level differences cannot drift and be amplified by later cancellations
        for k in 0..m.len() {
            m[k] = g[k];
        }
        // keep the model's view of what is zero aligned with the implementation after purges
        if matches!(op, Op::PurgeLeading | Op::MulPoly(..)) {
            m = g.clone();
            while m.len() > q.order() + 1 {
                m.pop();
            }
        }
        if m.len() > MAXLEN || q.order() > MAXLEN {
            break;
        }
        if !m.iter().all(|t| t.re.is_finite() && t.im.is_finite()) || m.iter().any(|t| t.norm() > 1e150) {
            break;
        }
    }
    o.set("final_order", q.order());
    o.set("ops", case.ops.len());
    o.nontrivial = special || case.ops.len() >= 10;
    if case.ops.len() >= 10 {
        o.label("long-history");
    }
    o.pass()
}

pub fn run_case(case: &Case) -> Outcome {
    let mut o = Obs::new();
    if case.coef.is_empty() {
        return o.discard("empty");
    }
    o.label(if case.complex { "complex" } else { "real" });
    if case.complex {
        run_field::<C64>(case, o)
    } else {
        run_field::<f64>(case, o)
    }
}

fn val() -> BoxedStrategy<(f64, f64)> {
    prop_oneof![
        4 => (gen::fl(-4.0, 4.0), gen::fl(-4.0, 4.0)),
        1 => Just((0.0, 0.0)),
        1 => (gen::logu(-13.0, -9.0), gen::logu(-13.0, -9.0)),
        // negligible (or zero) real part with a significant imaginary part and vice versa
        1 => gen::fl(-4.0, 4.0).prop_map(|v| (0.0, v)),
        1 => (gen::logu(-13.0, -11.0), gen::fl(-4.0, 4.0)),
        1 => (gen::fl(-4.0, 4.0), gen::logu(-13.0, -11.0)),
    ]
    .boxed()
}

fn nonzero() -> BoxedStrategy<(f64, f64)> {
    (gen::fl(0.25, 4.0), gen::sign(), gen::fl(-2.0, 2.0)).prop_map(|(m, s, i)| (m * s, i)).boxed()
}

fn op() -> BoxedStrategy<Op> {
    prop_oneof![
        4 => (0u32..=40, val()).prop_map(|(p, v)| Op::Set(p, v)),
        3 => (0usize..=45).prop_map(Op::Purge),
        3 => (0usize..=3).prop_map(Op::PurgeRel),
        2 => Just(Op::PurgeLeading),
        1 => val().prop_map(Op::AddScalar),
        1 => val().prop_map(Op::SubScalar),
        1 => nonzero().prop_map(Op::MulScalar),
        1 => nonzero().prop_map(Op::DivScalar),
        1 => coef_vec(12).prop_map(Op::AddPoly),
        1 => coef_vec(12).prop_map(Op::SubPoly),
        1 => (nonzero(), val()).prop_map(|(a, b)| Op::MulLinear(a, b)),
        1 => (nonzero(), proptest::collection::vec(val(), 2..=5)).prop_map(|(a, b)| Op::MulPoly(a, b)),
        1 => Just(Op::Derivative),
        1 => val().prop_map(Op::Antiderivative),
        1 => Just(Op::RoundTrip),
        1 => Just(Op::Neg),
        2 => (coef_vec(12), 0u8..8, prop_oneof![Just(-3i8), Just(0i8), Just(3i8)]).prop_map(|(v, var, e)| Op::AddVar(v, var, e)),
    ]
    .boxed()
}

fn strategy(_t: Tier) -> BoxedStrategy<Case> {
    (
        any::<bool>(),
        coef_vec(31),
        gen::logu(-14.0, -8.0),
        (gen::fl(-2.0, 2.0), gen::fl(-2.0, 2.0)),
        (gen::fl(-2.0, 2.0), gen::fl(-2.0, 2.0), gen::fl(-2.0, 2.0)),
        val(),
        proptest::collection::vec(op(), 0..40),
    )
        .prop_map(|(complex, coef, tol, x, abc, constant, ops)| {
            // keep |x| <= 2
            let r = (x.0 * x.0 + x.1 * x.1).sqrt();
            let x = if complex && r > 2.0 { (x.0 * 2.0 / r, x.1 * 2.0 / r) } else { x };
            Case { complex, coef, tol, x, abc, constant, ops }
        })
        .boxed()
}

pub fn run(opts: &Opts) -> i32 {
    let mut spec = Spec::new("C13", strategy, run_case);
    // deterministic: purge at every position relative to the end, on short polynomials
    for len in 1..=4usize {
        for pw in 0..=len + 2 {
            for complex in [false, true] {
                let coef: Vec<(f64, f64)> = (0..len).map(|i| (1.0 + i as f64, -0.5)).collect();
                spec.enumerated.push(Case { complex, coef, tol: 1e-10, x: (0.5, 0.25), abc: (-1.0, 0.5, 1.5), constant: (2.0, 1.0), ops: vec![Op::Purge(pw), Op::Set(1, (3.0, 0.0)), Op::Purge(pw)] });
            }
        }
    }
    spec.cases = opts.tier.pick(150_000, 4_000_000);
    spec.essential = vec![("purge-absent", 0.2), ("purge-leading-term", 0.1), ("long-history", 0.3), ("complex", 0.3), ("history-fft-product", 0.2), ("short-panel-resolved", 0.5)];
    spec.rule = "generated: polynomials of length 1..31 (real/complex, shapes as C11), evaluation points |x|<=2, integration points in [-2,2] plus short panels [a, a+d] with d = half the polynomial's zero tolerance, 0.9e-10 and 1e-13 (integral = F(a+d)-F(a) within the rounding bound, additivity), and histories vec(op, 0..40) over {set_coefficient(p<=40), purge_coefficient(p<=45 absolute, and relative to the current end: leading term, one/two/three past the end), purge_leading, +-scalar, *-/scalar, +-polynomial (compound assignment, and all eight owned/borrowed binary forms with the right operand carrying the tolerance x 1e-3, x 1 or x 1e3), *linear, *polynomial of degree 2-6 (FFT path, judged within the C11 noise bound), derivative, antiderivative(c), from_slice(get_coefficients()), negation}; oracle: naive power-sum evaluation, term-wise calculus, and a reference coefficient map replicated with the same single IEEE operations, compared after every step for all powers up to max(len)+2; get_tolerance() stays the tolerance the polynomial was given after every step; no step may panic. Non-trivial = history with a purge of an absent power, or >= 10 operations. Distinct = distinct case JSON.".into();
    spec.max_shrink_iters = 4000;
    run_spec(spec, opts)
}

//! C11 — polynomial arithmetic, including FFT products, matches coefficient algebra.

use bacon_sci::polynomial::Polynomial;
use bverif::engine::*;
use bverif::refs::num::*;
use nalgebra::ComplexField;
use num_traits::FromPrimitive;
use proptest::prelude::*;
use serde::{Deserialize, Serialize};

#[derive(Clone, Debug, Serialize, Deserialize)]
pub struct Case {
    pub complex: bool,
    /// ascending coefficients (re, im); im ignored for real
    pub a: Vec<(f64, f64)>,
    pub b: Vec<(f64, f64)>,
    /// zero tolerance as a multiple (power of ten) of the product's rounding-noise level,
    /// or absolute when `tol_abs`
    pub tol: f64,
    pub tol_abs: bool,
    pub scalar: (f64, f64),
    pub x: (f64, f64),
    pub dft_extra: usize,
}

/// field abstraction so that the same oracle code runs on f64 and Complex<f64>
pub trait Fld: ComplexField<RealField = f64> + FromPrimitive + Copy {
    fn from_c(z: C64) -> Self;
    fn to_c(self) -> C64;
    const COMPLEX: bool;
}
impl Fld for f64 {
    fn from_c(z: C64) -> f64 {
        z.re
    }
    fn to_c(self) -> C64 {
        c(self, 0.0)
    }
    const COMPLEX: bool = false;
}
impl Fld for C64 {
    fn from_c(z: C64) -> C64 {
        z
    }
    fn to_c(self) -> C64 {
        self
    }
    const COMPLEX: bool = true;
}

pub fn mk<N: Fld>(asc: &[C64], tol: f64) -> Polynomial<N> {
    let desc: Vec<N> = asc.iter().rev().map(|&z| N::from_c(z)).collect();
    let mut p = Polynomial::from_slice(&desc);
    p.set_tolerance(tol).expect("positive tolerance");
    p
}

pub fn coefs<N: Fld>(p: &Polynomial<N>, upto: usize) -> Vec<C64> {
    (0..upto).map(|k| p.get_coefficient(k).to_c()).collect()
}

fn cmp_vec(name: &str, got: &[C64], want: &[C64], abs_bound: f64, rel: f64) -> Result<f64, String> {
    let mut worst: f64 = 0.0;
    for k in 0..got.len().max(want.len()) {
        let g = got.get(k).copied().unwrap_or(c(0.0, 0.0));
        let w = want.get(k).copied().unwrap_or(c(0.0, 0.0));
        if !(g.re.is_finite() && g.im.is_finite()) {
            return Err(format!("{name}: coefficient of x^{k} is not finite"));
        }
        let err = (g - w).norm();
        let bound = abs_bound + rel * w.norm();
        if !(err <= bound) {
            return Err(format!("{name}: coefficient of x^{k} is {g:e}, coefficient algebra gives {w:e} (|diff| {err:e} > {bound:e})"));
        }
        if bound > 0.0 {
            worst = worst.max(err / bound);
        }
    }
    Ok(worst)
}

/// product comparison: rounding noise on every coefficient; the zero tolerance may remove LEADING coefficients only, so
/// its allowance applies above the order of the returned polynomial and nowhere else
fn cmp_prod(name: &str, got: &[C64], want: &[C64], order: usize, noise: f64, tol: f64) -> Result<f64, String> {
    let mut worst: f64 = 0.0;
    for k in 0..got.len().max(want.len()) {
        let g = got.get(k).copied().unwrap_or(c(0.0, 0.0));
        let w = want.get(k).copied().unwrap_or(c(0.0, 0.0));
        if !(g.re.is_finite() && g.im.is_finite()) {
            return Err(format!("{name}: coefficient of x^{k} is not finite"));
        }
        let err = (g - w).norm();
        let bound = noise + if k > order { 1.5 * tol } else { 0.0 };
        if !(err <= bound) {
            return Err(format!("{name}: coefficient of x^{k} is {g:e}, coefficient algebra gives {w:e} (|diff| {err:e} > {bound:e}; returned order {order})"));
        }
        if bound > 0.0 {
            worst = worst.max(err / bound);
        }
    }
    Ok(worst)
}

fn run_field<N: Fld>(case: &Case, mut o: Obs) -> Outcome {
    let z = |p: &(f64, f64)| if N::COMPLEX { c(p.0, p.1) } else { c(p.0, 0.0) };
    let a: Vec<C64> = case.a.iter().map(z).collect();
    let b: Vec<C64> = case.b.iter().map(z).collect();
    let s = z(&case.scalar);
    let (na, nb) = (a.len(), b.len());
    let (n1a, n1b) = (norm1_c(&a), norm1_c(&b));
    // FFT twiddles are accumulated by repeated multiplication, so the transform error grows
    // linearly with the transform size (measured: 1.9, 7.8, 25, 30 eps|a||b| at N = 8, 64, 256, 512)
    let nfft = (2 * na.max(nb)).next_power_of_two() as f64;
    let noise = (16.0 + nfft) * EPS * n1a * n1b;
    let tol = if case.tol_abs { case.tol } else { (noise.max(1e-300) * case.tol).clamp(1e-18, 1e3) };
    o.set("tol", tol);
    let pa: Polynomial<N> = mk(&a, tol);
    let pb: Polynomial<N> = mk(&b, tol);
    let upto = na + nb + 3;
    let sn = N::from_c(s);

    // ---- linear operations: one IEEE operation per coefficient -> 4 eps relative
    let rel = 4.0 * EPS;
    let maxlen = na.max(nb);
    let get = |v: &Vec<C64>, k: usize| v.get(k).copied().unwrap_or(c(0.0, 0.0));
    let sum: Vec<C64> = (0..maxlen).map(|k| get(&a, k) + get(&b, k)).collect();
    let dif: Vec<C64> = (0..maxlen).map(|k| get(&a, k) - get(&b, k)).collect();
    let neg: Vec<C64> = a.iter().map(|&x| -x).collect();
    let mut lin_worst: f64 = 0.0;
    let mut chk = |name: &str, p: &Polynomial<N>, want: &[C64], abs: f64, rel: f64| -> Result<(), String> {
        let w = cmp_vec(name, &coefs(p, upto), want, abs, rel)?;
        if w > lin_worst {
            lin_worst = w;
        }
        Ok(())
    };
    macro_rules! t {
        ($e:expr) => {
            if let Err(m) = $e {
                return o.fail(m);
            }
        };
    }
    t!(chk("a + b (owned, owned)", &(pa.clone() + pb.clone()), &sum, 0.0, rel));
    t!(chk("a + &b", &(pa.clone() + &pb), &sum, 0.0, rel));
    t!(chk("&a + b", &(&pa + pb.clone()), &sum, 0.0, rel));
    t!(chk("&a + &b", &(&pa + &pb), &sum, 0.0, rel));
    {
        let mut p = pa.clone();
        p += pb.clone();
        t!(chk("a += b", &p, &sum, 0.0, rel));
        let mut p = pa.clone();
        p += &pb;
        t!(chk("a += &b", &p, &sum, 0.0, rel));
    }
    t!(chk("a - b (owned, owned)", &(pa.clone() - pb.clone()), &dif, 0.0, rel));
    t!(chk("a - &b", &(pa.clone() - &pb), &dif, 0.0, rel));
    t!(chk("&a - b", &(&pa - pb.clone()), &dif, 0.0, rel));
    t!(chk("&a - &b", &(&pa - &pb), &dif, 0.0, rel));
    {
        let mut p = pa.clone();
        p -= pb.clone();
        t!(chk("a -= b", &p, &dif, 0.0, rel));
        let mut p = pa.clone();
        p -= &pb;
        t!(chk("a -= &b", &p, &dif, 0.0, rel));
    }
    t!(chk("-a", &(-pa.clone()), &neg, 0.0, 0.0));
    t!(chk("-&a", &(-&pa), &neg, 0.0, 0.0));
    // scalar forms
    let mut a_plus = a.clone();
    a_plus[0] += s;
    let mut a_minus = a.clone();
    a_minus[0] -= s;
    let a_times: Vec<C64> = a.iter().map(|&x| x * s).collect();
    t!(chk("a + s", &(pa.clone() + sn), &a_plus, 0.0, rel));
    t!(chk("&a + s", &(&pa + sn), &a_plus, 0.0, rel));
    t!(chk("a - s", &(pa.clone() - sn), &a_minus, 0.0, rel));
    t!(chk("&a - s", &(&pa - sn), &a_minus, 0.0, rel));
    {
        let mut p = pa.clone();
        p += sn;
        t!(chk("a += s", &p, &a_plus, 0.0, rel));
        let mut p = pa.clone();
        p -= sn;
        t!(chk("a -= s", &p, &a_minus, 0.0, rel));
        let mut p = pa.clone();
        p *= sn;
        t!(chk("a *= s", &p, &a_times, 0.0, rel));
    }
    t!(chk("a * s", &(pa.clone() * sn), &a_times, 0.0, rel));
    t!(chk("&a * s", &(&pa * sn), &a_times, 0.0, rel));
    if s.norm() >= 1e-3 {
        let a_div: Vec<C64> = a.iter().map(|&x| x / s).collect();
        let reld = 16.0 * EPS;
        t!(chk("a / s", &(pa.clone() / sn), &a_div, 0.0, reld));
        t!(chk("&a / s", &(&pa / sn), &a_div, 0.0, reld));
        let mut p = pa.clone();
        p /= sn;
        t!(chk("a /= s", &p, &a_div, 0.0, reld));
    }
    o.set("ratio_linear", lin_worst);

    // ---- products
    let prod = naive_mul_c(&a, &b);
    let lead = prod[na + nb - 2].norm();
    // coefficients the implementation may legitimately zero: those within its tolerance
    let pbound = noise + 1.5 * tol;
    let fft = na >= 3 && nb >= 3;
    o.label(if fft { "fft" } else if na == 1 || nb == 1 { "scalar-path" } else { "linear-path" });
    let mut prod_worst: f64 = 0.0;
    let forms: Vec<(&str, Polynomial<N>)> = vec![
        ("a * b", pa.clone() * pb.clone()),
        ("a * &b", pa.clone() * &pb),
        ("&a * b", &pa * pb.clone()),
        ("&a * &b", &pa * &pb),
        ("b * a", pb.clone() * pa.clone()),
        ("&b * &a", &pb * &pa),
        ("a *= b", {
            let mut p = pa.clone();
            p *= pb.clone();
            p
        }),
        ("a *= &b", {
            let mut p = pa.clone();
            p *= &pb;
            p
        }),
    ];
    let degree_claim = noise < tol && tol < lead / 2.0;
    if degree_claim {
        o.label("degree-claim");
    }
    for (name, p) in &forms {
        match cmp_prod(name, &coefs(p, upto.max(p.order() + 2)), &prod, p.order(), noise, tol) {
            Ok(w) => prod_worst = prod_worst.max(w),
            Err(m) => return o.fail(m),
        }
        if degree_claim && p.order() != na + nb - 2 {
            return o.fail(format!("{name}: product has order {}, expected {} (tolerance {tol:e} lies between noise {noise:e} and leading coefficient {lead:e})", p.order(), na + nb - 2));
        }
        // pointwise: (a b)(x) = a(x) b(x), |x| <= 1
        let x = z(&case.x);
        let lhs = p.evaluate(N::from_c(x)).to_c();
        let rhs = horner_c(&a, x) * horner_c(&b, x);
        let eb = pbound * (na + nb) as f64 + 8.0 * EPS * (na + nb) as f64 * n1a * n1b;
        if !((lhs - rhs).norm() <= eb) {
            return o.fail(format!("{name}: (a b)(x) = {lhs:e} but a(x) b(x) = {rhs:e} at x = {x}"));
        }
    }
    o.set("ratio_product", prod_worst);
    // operands with different zero tolerances: the product is formed under the LEFT operand's tolerance (for `a *= b`
    // that is a's own); a looser tolerance on the right operand must not make the product lose its leading coefficient
    if degree_claim && fft {
        let pb_loose: Polynomial<N> = mk(&b, 4.0 * lead);
        o.label("mixed-tolerances");
        let mixed: Vec<(&str, Polynomial<N>)> = vec![
            ("&a * &b(loose tolerance)", &pa * &pb_loose),
            ("a *= &b(loose tolerance)", {
                let mut p = pa.clone();
                p *= &pb_loose;
                p
            }),
        ];
        for (name, p) in &mixed {
            if let Err(m) = cmp_prod(name, &coefs(p, upto.max(p.order() + 2)), &prod, p.order(), noise, tol) {
                return o.fail(m);
            }
            if p.order() != na + nb - 2 {
                return o.fail(format!("{name}: product has order {}, expected {} (left tolerance {tol:e}, right tolerance {:e}, leading coefficient {lead:e})", p.order(), na + nb - 2, 4.0 * lead));
            }
        }
    }
    if fft && std::env::var("C11_CALIB").is_ok() {
        let nn = (2 * na.max(nb)).next_power_of_two();
        let g = coefs(&forms[0].1, na + nb - 1);
        let mut w: f64 = 0.0;
        for k in 0..na + nb - 1 {
            let e = (g[k] - prod[k]).norm();
            if e > 1.4143 * tol {
                w = w.max(e / (EPS * n1a * n1b));
            }
        }
        o.set(&format!("ratio_calib_N{nn:04}"), w);
    }
    o.set("ratio_product_rounding", {
        // rounding part only: coefficients not zeroed by the tolerance rule, relative to the 64 eps allowance
        let g = coefs(&forms[0].1, na + nb - 1);
        let mut w: f64 = 0.0;
        for k in 0..na + nb - 1 {
            let e = (g[k] - prod[k]).norm();
            if e > 1.4143 * tol {
                w = w.max(e / noise.max(1e-300));
            }
        }
        w
    });

    // ---- transforms
    let size = na + case.dft_extra;
    let npts = size.next_power_of_two();
    let vals = pa.dft(size);
    if vals.len() != npts {
        return o.fail(format!("dft({size}) returned {} points, expected the next power of two {npts}", vals.len()));
    }
    let tb = 64.0 * EPS * (npts as f64) * n1a;
    // p(w^k) with w = exp(+-2 pi i / N): accept either orientation, consistently
    let mut worst = [0.0f64; 2];
    for (oi, sgn) in [1.0f64, -1.0].iter().enumerate() {
        for k in 0..npts {
            let ang = sgn * 2.0 * std::f64::consts::PI * (k as f64) / (npts as f64);
            let w = c(ang.cos(), ang.sin());
            let want = horner_c(&a, w);
            worst[oi] = worst[oi].max((vals[k] - want).norm());
        }
    }
    let wmin = worst[0].min(worst[1]);
    if !(wmin <= tb) {
        return o.fail(format!("dft({size}): values differ from p(w^k) by {wmin:e} (> {tb:e}) in both orientations"));
    }
    o.set("ratio_dft", if tb > 0.0 { wmin / tb } else { 0.0 });
    let back: Polynomial<N> = Polynomial::<N>::idft(&vals, tol);
    let rb = 64.0 * EPS * (npts as f64) * n1a + 1.5 * tol;
    match cmp_vec("idft(dft(a))", &coefs(&back, npts + 1), &a, rb, 0.0) {
        Ok(w) => {
            o.set("ratio_roundtrip", w);
            let g = coefs(&back, na);
            let mut r: f64 = 0.0;
            for k in 0..na {
                let e = (g[k] - a[k]).norm();
                if e > 1.4143 * tol {
                    r = r.max(e / (64.0 * EPS * (npts as f64) * n1a).max(1e-300));
                }
            }
            o.set("ratio_roundtrip_rounding", r);
        }
        Err(m) => return o.fail(m),
    }
    o.nontrivial = fft || N::COMPLEX;
    o.pass()
}

pub fn run_case(case: &Case) -> Outcome {
    let mut o = Obs::new();
    if case.a.is_empty() || case.b.is_empty() {
        return o.discard("empty operand");
    }
    o.label(if case.complex { "complex" } else { "real" });
    if case.complex {
        run_field::<C64>(case, o)
    } else {
        run_field::<f64>(case, o)
    }
}

/// coefficient vector shapes
pub fn coef_vec(max_len: usize) -> BoxedStrategy<Vec<(f64, f64)>> {
    let mag = || (gen::logu(-3.0, 3.0), gen::sign(), gen::logu(-3.0, 3.0), gen::sign()).prop_map(|(m, s, m2, s2)| (m * s, m2 * s2));
    let len = prop_oneof![
        3 => 1usize..=max_len,
        1 => Just(1usize),
        1 => Just(2usize),
        1 => Just(3usize),
        2 => (1u32..=7).prop_flat_map(|k| prop_oneof![Just((1usize << k) - 1), Just(1usize << k), Just((1usize << k) + 1)]),
    ]
    .prop_map(move |l| l.clamp(1, max_len));
    (len, 0u8..7).prop_flat_map(move |(l, shape)| {
        let base = proptest::collection::vec(mag(), l);
        match shape {
            // sparse: most coefficients exactly zero, leading kept
            1 => (base, proptest::collection::vec(0u8..4, l))
                .prop_map(|(mut v, mask)| {
                    let n = v.len();
                    for (i, m) in mask.iter().enumerate() {
                        if *m != 0 && i + 1 != n {
                            v[i] = (0.0, 0.0);
                        }
                    }
                    v
                })
                .boxed(),
            // palindromic
            2 => base
                .prop_map(|mut v| {
                    let n = v.len();
                    for i in 0..n / 2 {
                        v[n - 1 - i] = v[i];
                    }
                    v
                })
                .boxed(),
            // tiny trailing (low-order) coefficients
            3 => base
                .prop_map(|mut v| {
                    let n = v.len();
                    for i in 0..(n / 3) {
                        v[i] = (v[i].0 * 1e-13, v[i].1 * 1e-13);
                    }
                    v
                })
                .boxed(),
            // small dyadic grid values, each coefficient purely real, purely imaginary or mixed: exact
            // cancellations (zero real part with non-zero imaginary part and vice versa) become common
            5 | 6 => proptest::collection::vec((-8i32..=8, -8i32..=8, 0u8..4), l)
                .prop_map(move |v| {
                    let n = v.len();
                    let mut out: Vec<(f64, f64)> = v
                        .into_iter()
                        .map(|(a, b, k)| match k {
                            0 => (a as f64 * 0.25, 0.0),
                            1 => (0.0, b as f64 * 0.25),
                            _ => (a as f64 * 0.25, b as f64 * 0.25),
                        })
                        .collect();
                    // keep a non-negligible leading coefficient
                    if out[n - 1].0 == 0.0 && (shape == 5 || out[n - 1].1 == 0.0) {
                        out[n - 1].0 = 1.0;
                    }
                    out
                })
                .boxed(),
            // tiny leading coefficients (relative to the rest)
            4 => base
                .prop_map(|mut v| {
                    let n = v.len();
                    if n >= 3 {
                        v[n - 1] = (v[n - 1].0 * 1e-12, v[n - 1].1 * 1e-12);
                    }
                    v
                })
                .boxed(),
            _ => base.boxed(),
        }
    })
    .boxed()
}

fn strategy(t: Tier) -> BoxedStrategy<Case> {
    let max_len = t.pick(41, 129);
    let tol = prop_oneof![
        // relative to the noise level: 10^[0.5, 4] times the noise (degree claim applies)
        2 => gen::logu(0.5, 4.0).prop_map(|m| (m, false)),
        // absolute, anywhere in the admissible range
        1 => gen::logu(-14.0, -6.0).prop_map(|m| (m, true)),
    ];
    // one case in twelve: a loose user tolerance 10^[-6,-1] and one operand a constant (or the leading coefficient of a
    // short operand) just below it - "zero by tolerance" must not be confused with "contributes nothing"
    let below_tol = prop_oneof![11 => Just(None), 1 => (gen::logu(-6.0, -1.0), gen::fl(0.05, 0.9), 0u8..3, any::<bool>()).prop_map(Some)];
    (any::<bool>(), coef_vec(max_len), coef_vec(max_len), tol, (gen::fl(-3.0, 3.0), gen::fl(-3.0, 3.0)), (gen::fl(-0.7, 0.7), gen::fl(-0.7, 0.7)), prop_oneof![Just(0usize), 0usize..40, 0usize..900], below_tol)
        .prop_map(|(complex, mut a, mut b, (mut tol, mut tol_abs), scalar, x, dft_extra, below)| {
            if let Some((t, frac, keep, left)) = below {
                tol = t;
                tol_abs = true;
                let small = (t * frac, if complex { -0.5 * t * frac } else { 0.0 });
                let v = if left { &mut a } else { &mut b };
                v.truncate(1 + keep as usize);
                *v.last_mut().unwrap() = small;
            }
            let dft_extra = dft_extra.min(1024usize.saturating_sub(a.len()));
            Case { complex, a, b, tol, tol_abs, scalar, x, dft_extra }
        })
        .boxed()
}

pub fn run(opts: &Opts) -> i32 {
    let mut spec = Spec::new("C11", strategy, run_case);
    // deterministic corner cases: all length pairs 1..5 x real/complex with simple coefficients
    for la in 1..=5usize {
        for lb in 1..=5usize {
            for complex in [false, true] {
                let a: Vec<(f64, f64)> = (0..la).map(|i| (1.0 + i as f64, 0.5 - i as f64)).collect();
                let b: Vec<(f64, f64)> = (0..lb).map(|i| (2.0 - i as f64, 1.0 + 0.25 * i as f64)).collect();
                spec.enumerated.push(Case { complex, a, b, tol: 1e-10, tol_abs: true, scalar: (1.5, -0.5), x: (0.3, 0.4), dft_extra: 0 });
            }
        }
    }
    spec.cases = opts.tier.pick(60_000, 2_000_000);
    spec.essential = vec![("fft", 0.4), ("complex", 0.3), ("degree-claim", 0.2), ("linear-path", 0.03), ("scalar-path", 0.03)];
    spec.rule = "generated: pairs of coefficient vectors of length 1..41 (quick) / 1..129 (thorough), magnitudes 10^[-3,3] with random signs, shapes dense/sparse/palindromic/tiny-trailing/tiny-leading, lengths biased to 1,2,3 and 2^k-1,2^k,2^k+1; real and complex; zero tolerance either 10^[0.5,4] x ((16+N) eps |a|_1 |b|_1) or absolute 10^[-14,-6]; one case in twelve has a loose absolute tolerance 10^[-6,-1] with one operand a constant (or short) whose leading coefficient lies just below it. Oracle: naive O(n^2) coefficient algebra in the harness; +,-,neg,scalar ops through every owned/borrowed/assigning form within 4 eps relative; products (8 forms incl. commuted and assigning) within (16+N) eps |a|_1|b|_1 (N = FFT size) up to the returned order and + 1.5 tol above it (the zero tolerance may remove leading coefficients only), degree = sum of degrees when noise < tol < |lead|/2, pointwise product; with a looser tolerance on the right operand the product is still formed under the left operand's; dft = values at roots of unity (either orientation) and idft(dft(p)) = p. Non-trivial = both operands of length >= 3 (FFT path) or complex field. Distinct = distinct case JSON.".into();
    spec.assumptions = vec!["naive harness product error (<= (n+m) eps |a|_1|b|_1) is inside the 64 eps allowance".into()];
    spec.max_shrink_iters = 2000;
    run_spec(spec, opts)
}

//! C18 — orthogonal polynomial constructors return the exact classical polynomials.
//! Exhaustive over family x n=0..20 x listed tolerances x {f64, Complex<f64>}; generated tolerances.

use bacon_sci::polynomial::Polynomial;
use bacon_sci::special as sp;
use bverif::engine::*;
use bverif::refs::num::*;
use bverif::refs::rational::orthopoly;
use proptest::prelude::*;
use serde::{Deserialize, Serialize};

#[derive(Clone, Debug, Serialize, Deserialize)]
pub struct Case {
    /// 0 Legendre, 1 Hermite, 2 Laguerre, 3 Chebyshev T, 4 Chebyshev U
    pub family: u8,
    pub n: u32,
    pub tol: f64,
    pub complex: bool,
    /// the f32 instantiation (real field): order, finiteness and coefficients on the f32 rounding scale
    #[serde(default)]
    pub single: bool,
}

const FAMILIES: [&str; 5] = ["legendre", "hermite", "laguerre", "chebyshev", "chebyshev_second"];

fn build_real(family: u8, n: u32, tol: f64) -> Result<Polynomial<f64>, String> {
    match family {
        0 => sp::legendre::<f64>(n, tol),
        1 => sp::hermite::<f64>(n, tol),
        2 => sp::laguerre::<f64>(n, tol),
        3 => sp::chebyshev::<f64>(n, tol),
        _ => sp::chebyshev_second::<f64>(n, tol),
    }
}

fn build_complex(family: u8, n: u32, tol: f64) -> Result<Polynomial<C64>, String> {
    match family {
        0 => sp::legendre::<C64>(n, tol),
        1 => sp::hermite::<C64>(n, tol),
        2 => sp::laguerre::<C64>(n, tol),
        3 => sp::chebyshev::<C64>(n, tol),
        _ => sp::chebyshev_second::<C64>(n, tol),
    }
}

fn build_single(family: u8, n: u32, tol: f32) -> Result<Polynomial<f32>, String> {
    match family {
        0 => sp::legendre::<f32>(n, tol),
        1 => sp::hermite::<f32>(n, tol),
        2 => sp::laguerre::<f32>(n, tol),
        3 => sp::chebyshev::<f32>(n, tol),
        _ => sp::chebyshev_second::<f32>(n, tol),
    }
}

pub fn run_case(case: &Case) -> Outcome {
    let mut o = Obs::new();
    let n = case.n as usize;
    if case.single {
        o.label("single-precision");
        o.label(FAMILIES[case.family as usize % 5]);
        o.nontrivial = n >= 2;
        let exact_q = match orthopoly(case.family % 5, n) {
            Ok(v) => v,
            Err(_) => return o.discard("i128 overflow in the exact reference"),
        };
        let exact: Vec<f64> = exact_q.iter().map(|q| q.to_f64()).collect();
        let norm: f64 = norm1(&exact);
        // the zero tolerance stays above the f32 rounding of the largest coefficient and below the leading one
        let tol32 = (case.tol.max(1e-7) as f32).max((64.0 * f32::EPSILON as f64 * norm) as f32);
        if !((tol32 as f64) < 0.25 * exact[n].abs()) {
            return o.discard("no admissible single-precision tolerance");
        }
        let p = match build_single(case.family % 5, case.n, tol32) {
            Ok(p) => p,
            Err(e) => return o.fail(format!("f32 constructor returned Err({e})")),
        };
        if p.order() != n {
            return o.fail(format!("{}::<f32>({n}) with tol {tol32:e} has order {}, expected exactly {n}", FAMILIES[case.family as usize % 5], p.order()));
        }
        let bound = 64.0 * f32::EPSILON as f64 * (n.max(1) as f64) * norm;
        let mut worst: f64 = 0.0;
        for k in 0..=n + 2 {
            let got = p.get_coefficient(k) as f64;
            let ex = exact.get(k).copied().unwrap_or(0.0);
            let err = (got - ex).abs();
            worst = worst.max(err);
            if !(err <= bound) {
                return o.fail(format!("{}::<f32>({n}): coefficient of x^{k} is {got:e}, exact {ex:e}; |diff| {err:e} > 64 eps32 n |exact|_1 = {bound:e}", FAMILIES[case.family as usize % 5]));
            }
        }
        o.set("ratio_coef_f32", if bound > 0.0 { worst / bound } else { 0.0 });
        return o.pass();
    }
    o.label(FAMILIES[case.family as usize % 5]);
    o.label(if case.complex { "complex" } else { "real" });
    o.nontrivial = n >= 2;
    let exact_q = match orthopoly(case.family, n) {
        Ok(v) => v,
        Err(_) => return o.discard("i128 overflow in the exact reference"),
    };
    let exact: Vec<f64> = exact_q.iter().map(|q| q.to_f64()).collect();
    let norm: f64 = norm1(&exact);
    // the implementation
    let (order, coefs): (usize, Vec<C64>) = if case.complex {
        match build_complex(case.family, case.n, case.tol) {
            Ok(p) => (p.order(), (0..=p.order().max(n) + 2).map(|k| p.get_coefficient(k)).collect()),
            Err(e) => return o.fail(format!("constructor returned Err({e})")),
        }
    } else {
        match build_real(case.family, case.n, case.tol) {
            Ok(p) => (p.order(), (0..=p.order().max(n) + 2).map(|k| c(p.get_coefficient(k), 0.0)).collect()),
            Err(e) => return o.fail(format!("constructor returned Err({e})")),
        }
    };
    o.set("order", order);
    if order != n {
        return o.fail(format!("{}({n}) with tol {:e} has order {order}, expected exactly {n}", FAMILIES[case.family as usize], case.tol));
    }
    let bound = 64.0 * EPS * (n.max(1) as f64) * norm;
    let mut worst: f64 = 0.0;
    for k in 0..coefs.len() {
        let ex = exact.get(k).copied().unwrap_or(0.0);
        let err = (coefs[k] - c(ex, 0.0)).norm();
        worst = worst.max(err);
        if !(err <= bound) {
            return o.fail(format!("{}({n}): coefficient of x^{k} is {:e}, exact {ex:e}; |diff| {err:e} > 64 eps n |exact|_1 = {bound:e}", FAMILIES[case.family as usize], coefs[k]));
        }
    }
    o.set("ratio_coef", if bound > 0.0 { worst / bound } else { 0.0 });
    // consequences, evaluated from the *returned* coefficients in harness arithmetic
    let ev = |x: f64| -> C64 { horner_c(&coefs, c(x, 0.0)) };
    let evb = |x: f64| -> f64 { bound * (coefs.len() as f64) + 8.0 * EPS * (coefs.len() as f64) * abs_scale(&exact, x) };
    match case.family {
        0 => {
            if (ev(1.0) - c(1.0, 0.0)).norm() > evb(1.0) {
                return o.fail(format!("P_{n}(1) = {} != 1", ev(1.0)));
            }
        }
        2 => {
            if (ev(0.0) - c(1.0, 0.0)).norm() > evb(0.0) {
                return o.fail(format!("L_{n}(0) = {} != 1", ev(0.0)));
            }
        }
        3 | 4 => {
            for j in 1..8 {
                let th = 0.37 * j as f64;
                let x = th.cos();
                let (lhs, rhs) = if case.family == 3 { (ev(x), (n as f64 * th).cos()) } else { (ev(x) * th.sin(), ((n + 1) as f64 * th).sin()) };
                if (lhs - c(rhs, 0.0)).norm() > evb(1.0) + 64.0 * EPS * (n as f64 + 1.0) {
                    return o.fail(format!("trigonometric identity fails at theta={th}: {lhs} vs {rhs}"));
                }
            }
        }
        _ => {}
    }
    // parity for the symmetric families
    if case.family != 2 {
        for k in 0..coefs.len() {
            if (k + n) % 2 == 1 && coefs[k].norm() > bound {
                return o.fail(format!("parity: coefficient of x^{k} should vanish, is {:e}", coefs[k]));
            }
        }
    }
    // leading coefficient
    let lead = exact[n];
    // the leading coefficient is a single product/quotient of small integers in every family (2^n, 2^(n-1),
    // (2n)!/(2^n n!^2), (-1)^n/n!): it must hold to relative rounding accuracy, not only on the scale of the
    // largest coefficient (measured: <= 2.3e-16 relative)
    let lead_rel = (coefs[n] - c(lead, 0.0)).norm() / lead.abs();
    o.set("ratio_lead", lead_rel / 1e-10);
    if !(lead_rel <= 1e-10) {
        return o.fail(format!("{}({n}): leading coefficient {:e} differs from the exact {lead:e} by {lead_rel:e} relative", FAMILIES[case.family as usize], coefs[n]));
    }
    o.pass()
}

fn strategy(_t: Tier) -> BoxedStrategy<Case> {
    (0u8..5, 0u32..=20, gen::logu(-14.0, -6.0), any::<bool>(), prop_oneof![5 => Just(false), 1 => Just(true)]).prop_map(|(family, n, tol, complex, single)| Case { family, n: if single { n.min(14) } else { n }, tol, complex: complex && !single, single }).boxed()
}

pub fn run(opts: &Opts) -> i32 {
    let mut spec = Spec::new("C18", strategy, run_case);
    for family in 0..5u8 {
        for n in 0..=20u32 {
            for tol in [1e-14, 1e-12, 1e-10, 1e-8, 1e-6] {
                for complex in [false, true] {
                    spec.enumerated.push(Case { family, n, tol, complex, single: false });
                }
            }
        }
    }
    for family in 0..5u8 {
        for n in 0..=14u32 {
            for tol in [1e-7, 1e-5] {
                spec.enumerated.push(Case { family, n, tol, complex: false, single: true });
            }
        }
    }
    spec.cases = opts.tier.pick(4_000, 200_000);
    spec.exhaustive = Some("five families x n=0..20 x tolerances {1e-14,1e-12,1e-10,1e-8,1e-6} x {f64, Complex<f64>}".into());
    spec.rule = "enumerated: family x n in 0..=20 x five zero tolerances x real/complex; generated: same with log-uniform tolerance in [1e-14,1e-6]. Oracle: exact rational coefficients from the three-term recurrences in checked i128 arithmetic; order()==n; |c_k - exact_k| <= 64 eps n |exact|_1; normalisations, trigonometric identities, parity, leading coefficient to 1e-10 relative; the f32 instantiation for n <= 14 (order, finite coefficients within 64 eps32 n |exact|_1; zero tolerance between the f32 rounding of the largest coefficient and a quarter of the leading one). Non-trivial = n >= 2. Distinct = distinct case JSON.".into();
    spec.assumptions = vec!["exact reference fits i128 for n <= 20 (checked arithmetic; overflow would be a discard)".into()];
    spec.max_discard_frac = 0.05; // single precision: Laguerre/Legendre rows whose leading coefficient is below the f32 rounding of the largest one
    run_spec(spec, opts)
}

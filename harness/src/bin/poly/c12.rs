//! C12 — polynomial division returns quotient and remainder of a valid Euclidean step.

use crate::c11::{coef_vec, coefs, mk, Fld};
use bacon_sci::polynomial::Polynomial;
use bverif::engine::*;
use bverif::refs::num::*;
use proptest::prelude::*;
use serde::{Deserialize, Serialize};

#[derive(Clone, Debug, Serialize, Deserialize)]
pub struct Case {
    pub complex: bool,
    /// 0 generic, 1 exact multiple (dividend := a*d computed naively), 2 zero divisor (new()),
    /// 3 zero divisor (from_slice(&[0])), 4 zero dividend
    pub kind: u8,
    pub a: Vec<(f64, f64)>,
    pub d: Vec<(f64, f64)>,
    pub tol: f64,
    /// the divisor carries the tolerance tol * 10^dtol_exp: quotient and remainder are formed under the dividend's
    #[serde(default)]
    pub dtol_exp: i8,
}

fn run_field<N: Fld>(case: &Case, mut o: Obs) -> Outcome {
    let z = |p: &(f64, f64)| if N::COMPLEX { c(p.0, p.1) } else { c(p.0, 0.0) };
    let mut a: Vec<C64> = case.a.iter().map(z).collect();
    let mut d: Vec<C64> = case.d.iter().map(z).collect();
    // the quantifier: leading coefficient of the divisor of magnitude >= 0.1 (construction, not rejection)
    {
        let l = d.last_mut().unwrap();
        if l.norm() < 0.1 {
            *l = if l.norm() == 0.0 { c(0.1, 0.0) } else { *l * (0.1 / l.norm()) * 1.0000001 };
        }
    }
    let tol = case.tol;
    match case.kind {
        1 => {
            a = naive_mul_c(&a, &d);
            o.label("exact-multiple");
        }
        2 | 3 => {
            o.label("zero-divisor");
            let pa: Polynomial<N> = mk(&a, tol);
            let pz: Polynomial<N> = if case.kind == 2 { Polynomial::new() } else { Polynomial::from_slice(&[N::from_c(c(0.0, 0.0))]) };
            o.nontrivial = true;
            return match pa.divide(&pz) {
                Err(_) => o.pass(),
                Ok((q, r)) => o.fail(format!("division by the zero polynomial returned Ok (quotient order {}, remainder order {})", q.order(), r.order())),
            };
        }
        4 => {
            a = vec![c(0.0, 0.0)];
            o.label("zero-dividend");
        }
        _ => {}
    }
    let (na, nd) = (a.len(), d.len());
    o.label(if nd == 1 { "constant-divisor" } else if nd > na { "divisor-higher" } else { "generic" });
    let pa: Polynomial<N> = mk(&a, tol);
    let pd: Polynomial<N> = mk(&d, tol * 10f64.powi(case.dtol_exp as i32));
    if case.dtol_exp != 0 {
        o.label("divisor-with-its-own-tolerance");
    }
    let (q, r) = match pa.divide(&pd) {
        Ok(x) => x,
        Err(e) => return o.fail(format!("divide returned Err({e}) for a non-zero divisor")),
    };
    let qv = coefs(&q, q.order() + 1);
    let rv = coefs(&r, r.order() + 1);
    if qv.iter().chain(rv.iter()).any(|x| !x.re.is_finite() || !x.im.is_finite()) {
        return o.fail("quotient or remainder contains non-finite coefficients");
    }
    o.set("deg_q", q.order());
    o.set("deg_r", r.order());
    // reconstruction in naive harness arithmetic
    let mut rec = naive_mul_c(&qv, &d);
    if rec.len() < rv.len() {
        rec.resize(rv.len(), c(0.0, 0.0));
    }
    for (k, x) in rv.iter().enumerate() {
        rec[k] += x;
    }
    let (n1q, n1d, n1a) = (norm1_c(&qv), norm1_c(&d), norm1_c(&a));
    let deg = na.max(nd) as f64;
    let bound = 64.0 * EPS * (n1q * n1d + n1a) * (deg + 1.0) + 1.5 * tol;
    let mut worst: f64 = 0.0;
    for k in 0..rec.len().max(na) {
        let want = a.get(k).copied().unwrap_or(c(0.0, 0.0));
        let got = rec.get(k).copied().unwrap_or(c(0.0, 0.0));
        let e = (got - want).norm();
        worst = worst.max(e);
        if !(e <= bound) {
            return o.fail(format!("dividend != quotient*divisor + remainder at x^{k}: {got:e} vs {want:e} (|diff| {e:e} > {bound:e})"));
        }
    }
    o.set("ratio_backward", worst / bound);
    // the same division through the f32 instantiation (real field, equal tolerances, short operands with a divisor lead
    // of at least 0.5 so that no coefficient can overflow single precision), data at unit scale and scaled by 1e-8 with
    // the zero tolerance 1e-10: quotient x divisor + remainder must reconstruct the dividend on the f32 rounding scale -
    // no threshold other than the polynomial's tolerance may enter
    if !N::COMPLEX && case.dtol_exp == 0 && case.kind <= 1 && a.len() <= 12 && d.len() <= 5 && d.len() >= 2 {
        for scale in [1.0f64, 1e-8] {
            let a32: Vec<f32> = a.iter().map(|z| (z.re * scale) as f32).collect();
            let mut d32: Vec<f32> = d.iter().map(|z| z.re as f32).collect();
            let lead = d32.last_mut().unwrap();
            if lead.abs() < 0.5 {
                *lead = if *lead < 0.0 { -0.5 } else { 0.5 };
            }
            let desc = |v: &Vec<f32>| v.iter().rev().cloned().collect::<Vec<f32>>();
            let (mut pa32, mut pd32) = (Polynomial::<f32>::from_slice(&desc(&a32)), Polynomial::<f32>::from_slice(&desc(&d32)));
            pa32.set_tolerance(1e-10).unwrap();
            pd32.set_tolerance(1e-10).unwrap();
            let (q32, r32) = match pa32.divide(&pd32) {
                Ok(x) => x,
                Err(e) => return o.fail(format!("f32 divide returned Err({e}) for a non-zero divisor")),
            };
            let qv32: Vec<C64> = (0..=q32.order()).map(|k| c(q32.get_coefficient(k) as f64, 0.0)).collect();
            let rv32: Vec<C64> = (0..=r32.order()).map(|k| c(r32.get_coefficient(k) as f64, 0.0)).collect();
            let dv32: Vec<C64> = d32.iter().map(|v| c(*v as f64, 0.0)).collect();
            let mut rec32 = naive_mul_c(&qv32, &dv32);
            if rec32.len() < rv32.len() {
                rec32.resize(rv32.len(), c(0.0, 0.0));
            }
            for (k, x) in rv32.iter().enumerate() {
                rec32[k] += x;
            }
            let n1a32: f64 = a32.iter().map(|v| v.abs() as f64).sum();
            let b32 = 64.0 * f32::EPSILON as f64 * (norm1_c(&qv32) * norm1_c(&dv32) + n1a32) * (deg + 1.0) + 1.5e-10;
            let mut w32: f64 = 0.0;
            for k in 0..rec32.len().max(a32.len()) {
                let want = a32.get(k).map_or(0.0, |v| *v as f64);
                let got = rec32.get(k).map_or(0.0, |z| z.re);
                if !got.is_finite() {
                    return o.fail("f32 division produced a non-finite coefficient");
                }
                w32 = w32.max((got - want).abs());
            }
            o.set("ratio_backward_f32", w32 / b32);
            o.label("single-precision-companion");
            if !(w32 <= b32) {
                return o.fail(format!("f32 division (data scale {scale:e}): dividend != quotient*divisor + remainder by {w32:e} (> {b32:e})"));
            }
        }
    }
    o.set("ratio_backward_rounding", if worst > 1.4143 * tol { worst / (bound - 1.5 * tol).max(1e-300) } else { 0.0 });
    if nd == 1 {
        // scaling by the constant, zero remainder
        if r.order() != 0 || rv[0].norm() != 0.0 {
            return o.fail("constant divisor: remainder is not the zero polynomial");
        }
        for k in 0..na {
            let want = a[k] / d[0];
            let got = qv.get(k).copied().unwrap_or(c(0.0, 0.0));
            // leading coefficients of the dividend within the tolerance may be dropped first
            if !((got - want).norm() <= 16.0 * EPS * want.norm() + 1.5 * tol / d[0].norm()) {
                return o.fail(format!("constant divisor: quotient coefficient {k} is {got:e}, expected {want:e}"));
            }
        }
    } else {
        let rz = rv.iter().all(|x| x.re.abs() <= tol && x.im.abs() <= tol);
        if !(r.order() < nd - 1 || (r.order() == 0 && rz)) {
            return o.fail(format!("remainder has order {} which is not below the divisor's order {}", r.order(), nd - 1));
        }
        if case.kind == 1 {
            // exact multiple: the remainder is -(q_hat - q) * d, i.e. the forward error of synthetic
            // division convolved with the divisor. That error is amplified by |d_j|/|d_lead| at every
            // step, so the allowance is an a-posteriori running bound of the triangular recurrence
            // (not the backward-error bound, which would false-alarm on ill-conditioned divisors).
            let n = nd - 1;
            // true quotient length (coefficients of the dividend dropped by the tolerance rule shorten
            // the computed quotient; their steps still contribute an error of up to 1.5 tol / |d_lead|)
            let nq = (na + 1 - nd).max(qv.len());
            let qa = |k: usize| qv.get(k).map(|x| x.norm()).unwrap_or(0.0);
            let u = 16.0 * EPS;
            let dl = d[n].norm();
            let mut e = vec![0.0f64; nq];
            for k in (0..nq).rev() {
                let mut local = a.get(k + n).map(|x| x.norm()).unwrap_or(0.0);
                let mut carried = 0.0;
                for j in 1..=n {
                    if k + j < nq {
                        local += d[n - j].norm() * qa(k + j);
                        carried += d[n - j].norm() * e[k + j];
                    }
                }
                e[k] = (u * (local + dl * qa(k)) + 1.5 * tol + carried) / dl;
            }
            let mut worst_r: f64 = 0.0;
            for (i, ri) in rv.iter().enumerate() {
                let mut allow = u * n1a + 1.5 * tol;
                for k in 0..nq {
                    if i >= k && i - k <= n {
                        allow += d[i - k].norm() * (e[k] + u * qa(k));
                    }
                }
                if !(ri.norm() <= allow) {
                    return o.fail(format!("exact multiple: remainder coefficient of x^{i} is {:e}, above the forward-error allowance {allow:e}", ri.norm()));
                }
                worst_r = worst_r.max(ri.norm() / allow);
            }
            o.set("ratio_exact_remainder", worst_r);
        }
        if nd > na && case.kind == 0 {
            // divisor of higher degree: quotient zero, remainder = dividend (up to tolerance-purging)
            if qv.iter().any(|x| x.norm() != 0.0) {
                return o.fail("divisor of higher degree: quotient is not zero");
            }
        }
    }
    o.nontrivial = na >= nd && nd >= 2;
    o.pass()
}

pub fn run_case(case: &Case) -> Outcome {
    let mut o = Obs::new();
    if case.a.is_empty() || case.d.is_empty() {
        return o.discard("empty operand");
    }
    o.label(if case.complex { "complex" } else { "real" });
    if case.complex {
        run_field::<C64>(case, o)
    } else {
        run_field::<f64>(case, o)
    }
}

fn strategy(_t: Tier) -> BoxedStrategy<Case> {
    let kind = prop_oneof![6 => Just(0u8), 3 => Just(1u8), 1 => Just(2u8), 1 => Just(3u8), 1 => Just(4u8)];
    (any::<bool>(), kind, coef_vec(41), coef_vec(21), gen::logu(-14.0, -8.0), prop_oneof![6 => Just(0i8), 1 => Just(3i8), 1 => Just(-3i8)])
        .prop_map(|(complex, kind, mut a, d, tol, dtol_exp)| {
            if kind == 1 {
                // keep the product's degree <= 40
                a.truncate(41 - d.len() + 1);
            }
            Case { complex, kind, a, d, tol, dtol_exp }
        })
        .boxed()
}

pub fn run(opts: &Opts) -> i32 {
    let mut spec = Spec::new("C12", strategy, run_case);
    for la in 1..=5usize {
        for ld in 1..=4usize {
            for complex in [false, true] {
                for kind in [0u8, 1] {
                    let a: Vec<(f64, f64)> = (0..la).map(|i| (1.0 + i as f64, 0.5 - i as f64)).collect();
                    let d: Vec<(f64, f64)> = (0..ld).map(|i| (2.0 - i as f64, 1.0 + 0.25 * i as f64)).collect();
                    spec.enumerated.push(Case { complex, kind, a, d, tol: 1e-10, dtol_exp: 0 });
                }
            }
        }
    }
    spec.cases = opts.tier.pick(60_000, 2_000_000);
    spec.essential = vec![("generic", 0.3), ("exact-multiple", 0.1), ("constant-divisor", 0.02), ("divisor-higher", 0.05), ("zero-divisor", 0.05), ("complex", 0.3)];
    spec.rule = "generated: dividends of length 1..41, divisors of length 1..21 (shapes as in C11, leading divisor coefficient forced to magnitude >= 0.1), real and complex, zero tolerance 10^[-14,-8] (a quarter of the divisors carry that tolerance x 1e3 or x 1e-3: quotient and remainder are formed under the dividend's); real cases with a dividend of at most 12 and a divisor of 2-5 coefficients are repeated through the f32 instantiation (divisor lead raised to 0.5 so that nothing overflows; data at unit scale and x 1e-8, tolerance 1e-10; reconstruction on the f32 rounding scale); classes: generic, exact multiple (q*d formed naively), divisor of higher degree, constant divisor, zero polynomial (both spellings), zero dividend. Oracle: a = q d + r reconstructed in naive harness arithmetic within 64 eps (|q|_1|d|_1 + |a|_1)(deg+1) + 1.5 tol per coefficient; deg r < deg d; exact multiples: remainder within the bound; constant divisor: scaled coefficients and zero remainder; zero divisor: Err. Non-trivial = deg a >= deg d >= 1. Distinct = distinct case JSON.".into();
    spec.max_shrink_iters = 2000;
    run_spec(spec, opts)
}

mod c07;
mod c08;
mod c14;
mod polygen;

fn main() {
    let opts = bverif::engine::parse_args();
    let code = match opts.prop.as_str() {
        "C07" => c07::run(&opts),
        "C08" => c08::run(&opts),
        "C14" => c14::run(&opts),
        p => {
            eprintln!("roots: unknown property {p}");
            2
        }
    };
    std::process::exit(code);
}

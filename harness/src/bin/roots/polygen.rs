//! Construction of polynomials from separated roots (shared by C08 and C14).
//! Roots are placed by construction: distinct cells of a 0.5-grid in the disc |z| <= 3 plus a jitter
//! of at most 0.1 per coordinate, which guarantees pairwise separation >= 0.3 without rejection.

use bverif::refs::num::*;
use proptest::prelude::*;
use serde::{Deserialize, Serialize};

#[derive(Clone, Debug, Serialize, Deserialize)]
pub struct RootSet {
    /// true: real coefficients (real roots and conjugate pairs); false: arbitrary complex roots
    pub real_coeffs: bool,
    /// root positions; for real_coeffs the list holds real roots (im = 0) and one member (im > 0) of each pair
    pub roots: Vec<(f64, f64)>,
    pub lead: f64,
}

impl RootSet {
    /// full root list (conjugates expanded)
    pub fn all_roots(&self) -> Vec<C64> {
        let mut v = vec![];
        for &(re, im) in &self.roots {
            v.push(c(re, im));
            if self.real_coeffs && im != 0.0 {
                v.push(c(re, -im));
            }
        }
        v
    }
    /// ascending coefficients
    pub fn coeffs(&self) -> Vec<C64> {
        let mut p = vec![c(self.lead, 0.0)];
        for z in self.all_roots() {
            // multiply by (x - z)
            let mut q = vec![c(0.0, 0.0); p.len() + 1];
            for (k, a) in p.iter().enumerate() {
                q[k + 1] += a;
                q[k] -= a * z;
            }
            p = q;
        }
        if self.real_coeffs {
            for a in p.iter_mut() {
                a.im = 0.0;
            }
        }
        p
    }
    pub fn degree(&self) -> usize {
        self.all_roots().len()
    }
    pub fn min_sep(&self) -> f64 {
        let r = self.all_roots();
        let mut m = f64::INFINITY;
        for i in 0..r.len() {
            for j in 0..i {
                m = m.min((r[i] - r[j]).norm());
            }
        }
        m
    }
}

fn jitter() -> BoxedStrategy<f64> {
    prop_oneof![Just(0.0), (-64i32..=64).prop_map(|k| k as f64 * 0.1 / 64.0), (0u64..1 << 40).prop_map(|k| (k as f64 / (1u64 << 40) as f64 - 0.5) * 0.2)].boxed()
}

fn lead() -> BoxedStrategy<f64> {
    (bverif::engine::gen::logu(-1.0, 1.0), bverif::engine::gen::sign()).prop_map(|(m, s)| m * s).boxed()
}

/// complex roots anywhere in the disc (complex coefficients), total degree in [dmin, dmax]
pub fn complex_rootset(dmin: usize, dmax: usize) -> BoxedStrategy<RootSet> {
    let mut cells: Vec<(f64, f64)> = vec![];
    for i in -5i32..=5 {
        for j in -5i32..=5 {
            let (x, y) = (i as f64 * 0.5, j as f64 * 0.5);
            if (x * x + y * y).sqrt() <= 2.8 {
                cells.push((x, y));
            }
        }
    }
    (dmin..=dmax, Just(cells).prop_shuffle(), proptest::collection::vec((jitter(), jitter()), dmax), lead())
        .prop_map(|(n, cells, jit, lead)| RootSet {
            real_coeffs: false,
            roots: (0..n).map(|k| (cells[k].0 + jit[k].0, cells[k].1 + jit[k].1)).collect(),
            lead,
        })
        .boxed()
}

/// real coefficients: `nreal` real roots and `npair` conjugate pairs with nreal + 2 npair in [dmin, dmax]
pub fn real_rootset(dmin: usize, dmax: usize) -> BoxedStrategy<RootSet> {
    let real_cells: Vec<f64> = (-5i32..=5).map(|i| i as f64 * 0.5).collect();
    let mut upper: Vec<(f64, f64)> = vec![];
    for i in -5i32..=5 {
        for j in 1i32..=5 {
            let (x, y) = (i as f64 * 0.5, j as f64 * 0.5);
            if (x * x + y * y).sqrt() <= 2.8 {
                upper.push((x, y));
            }
        }
    }
    (dmin..=dmax, 0usize..=4, Just(real_cells).prop_shuffle(), Just(upper).prop_shuffle(), proptest::collection::vec((jitter(), jitter()), dmax), lead())
        .prop_map(|(n, want_pairs, rc, uc, jit, lead)| {
            let npair = want_pairs.min(n / 2);
            let nreal = n - 2 * npair;
            let mut roots = vec![];
            for k in 0..nreal {
                roots.push((rc[k] + jit[k].0, 0.0));
            }
            for k in 0..npair {
                roots.push((uc[k].0 + jit[nreal + k].0, uc[k].1 + jit[nreal + k].1));
            }
            RootSet { real_coeffs: true, roots, lead }
        })
        .boxed()
}

/// only real roots (for real-arithmetic Newton)
pub fn real_roots_only(dmin: usize, dmax: usize) -> BoxedStrategy<RootSet> {
    let real_cells: Vec<f64> = (-5i32..=5).map(|i| i as f64 * 0.5).collect();
    (dmin..=dmax, Just(real_cells).prop_shuffle(), proptest::collection::vec(jitter(), dmax), lead())
        .prop_map(|(n, rc, jit, lead)| RootSet { real_coeffs: true, roots: (0..n).map(|k| (rc[k] + jit[k], 0.0)).collect(), lead })
        .boxed()
}

/// |p'(z)| at a root from the product formula (exact up to rounding), ascending coefficient scale
pub fn deriv_at_root(rs: &RootSet, idx: usize) -> f64 {
    let r = rs.all_roots();
    let mut d = rs.lead.abs();
    for (j, z) in r.iter().enumerate() {
        if j != idx {
            d *= (r[idx] - z).norm();
        }
    }
    d
}

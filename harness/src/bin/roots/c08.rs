//! C08 — Newton-type iterations converge to the nearby root on regular problems.

use crate::polygen::*;
use bacon_sci::polynomial::Polynomial;
use bacon_sci::roots::{muller_polynomial, newton, newton_polynomial, secant, steffensen};
use bverif::engine::*;
use bverif::refs::num::*;
use nalgebra::{DMatrix, SMatrix, SVector};
use proptest::prelude::*;
use serde::{Deserialize, Serialize};
use std::cell::Cell;

#[derive(Clone, Debug, Serialize, Deserialize)]
pub enum Case {
    Sys {
        dim: usize,
        /// 0 newton, 1 secant
        method: u8,
        /// row-major dim x dim (first dim*dim entries of a 16-vector are used)
        a: Vec<f64>,
        scale: f64,
        r: Vec<f64>,
        delta: Vec<f64>,
        eta: f64,
        /// 0: r + delta, 1: exactly r, 2: the origin (system forced affine)
        start: u8,
        tol: f64,
        h: f64,
        /// 0: n_max = 100; k>0: n_max = k-1 (exhaustion class)
        cap: u8,
        singular: bool,
        /// 0: strictly diagonally dominant; 1: diag(|a_ii|) times a product of plane rotations by angles pi a_12,
        /// pi a_23, pi a_34 (perfectly conditioned up to the diagonal, but far from symmetric)
        #[serde(default)]
        shape: u8,
        /// complex-valued system of dimension 1-2 (entries, root and start get imaginary parts from the unused
        /// entries of `a`); convergent class only
        #[serde(default)]
        complex: bool,
    },
    NewtonPoly {
        complex_field: bool,
        rs: RootSet,
        target: usize,
        rho: f64,
        angle: f64,
        tol: f64,
        /// all coefficients are multiplied by 10^scale_exp (the roots do not move)
        #[serde(default)]
        scale_exp: f64,
        /// 0: n_max = 100; k > 0: n_max = k - 1 (exhaustion class: Err, or an Ok that meets the accuracy bound)
        #[serde(default)]
        cap: u8,
    },
    Muller {
        complex_field: bool,
        rs: RootSet,
        target: usize,
        offs: [(f64, f64); 3],
        vertical: bool,
        near: bool,
        tol: f64,
        #[serde(default)]
        scale_exp: f64,
        #[serde(default)]
        cap: u8,
        /// the polynomial is multiplied by (1 - x/R), R = +-10^far: one more, very distant real root and a leading
        /// coefficient (curvature) many orders below the others
        #[serde(default)]
        far: Option<(f64, bool)>,
    },
    /// g(x) = relax * x + (1 - relax) * r(x): same fixed point as the catalogue map r, slope relax + (1-relax) r'
    Steff {
        func: u8,
        off: f64,
        tol: f64,
        cap: usize,
        #[serde(default)]
        relax: f64,
    },
}

// --------------------------------------------------------------------------------------------
// systems F(x) = A (x - r) + eta * N(x - r),  N_i(d) = sin(d_{i+1}) d_i + d_{i+2}^2

fn nonlin(d: &[f64], i: usize) -> f64 {
    let s = d.len();
    (d[(i + 1) % s]).sin() * d[i] + d[(i + 2) % s] * d[(i + 2) % s]
}

fn nonlin_jac(d: &[f64], i: usize, j: usize) -> f64 {
    let s = d.len();
    let mut v = 0.0;
    if j == i {
        v += d[(i + 1) % s].sin();
    }
    if j == (i + 1) % s {
        v += d[(i + 1) % s].cos() * d[i];
    }
    if j == (i + 2) % s {
        v += 2.0 * d[(i + 2) % s];
    }
    v
}

fn run_sys<const S: usize>(case: &Case, mut o: Obs) -> Outcome
where
    nalgebra::Const<S>: nalgebra::DimMin<nalgebra::Const<S>, Output = nalgebra::Const<S>>,
{
    let Case::Sys { method, a, scale, r, delta, eta, start, tol, h, cap, singular, shape, .. } = case else { unreachable!() };
    let (method, scale, start, tol, h, cap, singular) = (*method, *scale, *start, *tol, *h, *cap, *singular && S >= 2);
    let mut am = [[0.0f64; S]; S];
    let rotated = *shape == 1 && !singular && S >= 2;
    for i in 0..S {
        for j in 0..S {
            // strictly diagonally dominant by construction: |diag| in [1,3], |offdiag| <= 0.25
            am[i][j] = if singular {
                (a[i * 4 + j] * 4.0).round()
            } else if i == j {
                a[i * 4 + j] * scale
            } else {
                a[i * 4 + j] * (0.25 / 3.0) * scale
            };
        }
    }
    if rotated {
        o.label("rotation-shaped-jacobian");
        // Q = product of plane rotations (k, k+1) by pi a[k][k+1]; A = scale diag(|a_kk|) Q
        let mut q = [[0.0f64; S]; S];
        for (i, row) in q.iter_mut().enumerate() {
            row[i] = 1.0;
        }
        for k in 0..S - 1 {
            let th = std::f64::consts::PI * a[k * 4 + k + 1] / 3.0;
            let (c, sn) = (th.cos(), th.sin());
            for row in q.iter_mut() {
                let (u, v) = (row[k], row[k + 1]);
                row[k] = c * u - sn * v;
                row[k + 1] = sn * u + c * v;
            }
        }
        for i in 0..S {
            for j in 0..S {
                am[i][j] = a[i * 4 + i].abs() * scale * q[i][j];
            }
        }
    }
    if singular {
        // duplicate integer rows => exact zero pivot
        for j in 0..S {
            am[S - 1][j] = am[0][j];
        }
        // keep the other rows independent enough: add identity on rows 1..S-1
        for i in 1..S - 1 {
            am[i][i] += 7.0;
        }
        if (0..S).all(|j| am[0][j] == 0.0) {
            am[0][0] = 1.0;
            am[S - 1][0] = 1.0;
        }
    }
    let rv: Vec<f64> = r[..S].to_vec();
    let affine = start == 2 || singular;
    let dlt: Vec<f64> = delta[..S].to_vec();
    let dn = dlt.iter().map(|x| x.abs()).fold(0.0, f64::max);
    // conditioning
    let adm = DMatrix::from_fn(S, S, |i, j| am[i][j]);
    let (kappa, beta) = if singular {
        (1.0, 1.0)
    } else {
        match adm.clone().try_inverse() {
            Some(inv) => (adm.norm() * inv.norm(), inv.norm()),
            None => return o.discard("matrix unexpectedly singular"),
        }
    };
    // Kantorovich-type smallness of the non-linearity at the start: beta * gamma * |delta| <= 0.1,
    // gamma (Lipschitz constant of the Jacobian of eta*N) <= 6 S eta
    let eta_eff = if affine { 0.0 } else { eta.min(0.1 / (beta * 6.0 * S as f64 * dn.max(1e-3))) };
    o.set("eta", eta_eff);
    o.set("kappa", kappa);
    let x0: Vec<f64> = match start {
        0 => (0..S).map(|i| rv[i] + dlt[i]).collect(),
        1 => rv.clone(),
        _ => vec![0.0; S],
    };
    let n_max: usize = if cap == 0 { 100 } else { cap as usize - 1 };
    let calls = Cell::new(0usize);
    let call_budget = (n_max + 3) * (2 * S + 3) + 8;
    let f = |x: &[f64]| -> SVector<f64, S> {
        calls.set(calls.get() + 1);
        if calls.get() > call_budget {
            budget_exceeded("system function calls");
        }
        let d: Vec<f64> = (0..S).map(|i| x[i] - rv[i]).collect();
        SVector::<f64, S>::from_fn(|i, _| {
            let mut v = 0.0;
            for j in 0..S {
                v += am[i][j] * d[j];
            }
            v + eta_eff * nonlin(&d, i)
        })
    };
    let jac = |x: &[f64]| -> SMatrix<f64, S, S> {
        calls.set(calls.get() + 1);
        if calls.get() > call_budget {
            budget_exceeded("jacobian calls");
        }
        let d: Vec<f64> = (0..S).map(|i| x[i] - rv[i]).collect();
        SMatrix::<f64, S, S>::from_fn(|i, j| am[i][j] + eta_eff * nonlin_jac(&d, i, j))
    };
    o.label(if method == 0 { "newton" } else { "secant" });
    o.label(format!("dim{S}"));
    let res = guard(|| if method == 0 { newton::<f64, _, _, S>(&x0, f, jac, tol, n_max) } else { secant::<f64, _, S>(&x0, f, h, tol, n_max) });
    o.set("calls", calls.get());
    let res = match res {
        Ok(r) => r,
        Err(Caught::Budget(w)) => return o.fail(format!("loops beyond its iteration cap: more than {call_budget} {w} with n_max = {n_max}")),
        Err(Caught::Panic(m)) => return o.fail(format!("panicked: {m}")),
    };
    // the cap counts iterations: Newton evaluates F and the Jacobian once per iteration; the secant method evaluates F
    // once at the start, 2 S times for the central-difference Jacobian, and once per iteration from the third on
    let exact_cap = if method == 0 { 2 * n_max } else { 1 + 2 * S + n_max.saturating_sub(2) };
    if calls.get() > exact_cap {
        return o.fail(format!(
            "{} with n_max = {n_max} made {} evaluations of the user functions; the iteration cap allows {exact_cap}",
            if method == 0 { "newton" } else { "secant" },
            calls.get()
        ));
    }
    o.set("result", format!("{:?}", res.as_ref().map(|v| v.as_slice().to_vec())));
    let rnorm = rv.iter().map(|x| x * x).sum::<f64>().sqrt();
    let bound = 2.0 * tol + 256.0 * EPS * kappa * (1.0 + rnorm);
    if let Ok(x) = &res {
        if !x.iter().all(|v| v.is_finite()) {
            return o.fail("Ok result contains NaN or infinity");
        }
    }
    if singular {
        o.label("singular");
        o.nontrivial = true;
        return match res {
            Err(_) => o.pass(),
            Ok(x) => {
                // The linear solver need not see an exactly zero pivot (nalgebra multiplies by the
                // reciprocal pivot, so duplicate rows do not cancel exactly), and the singular system
                // A(x-r)=0 is consistent: every point of r + null(A) is a genuine root. An Ok must then
                // be such a solution (small residual), never a silently wrong point.
                let d: Vec<f64> = (0..S).map(|i| x[i] - rv[i]).collect();
                let mut res2: f64 = 0.0;
                let mut an: f64 = 0.0;
                for i in 0..S {
                    let mut v = 0.0;
                    for j in 0..S {
                        v += am[i][j] * d[j];
                        an = an.max(am[i][j].abs());
                    }
                    res2 = res2.max(v.abs());
                }
                let xn = x.iter().map(|v| v.abs()).fold(0.0, f64::max);
                if res2 <= (S as f64) * an * (2.0 * tol + 256.0 * EPS * (1.0 + rnorm + xn)) {
                    o.label("singular-ok-root");
                    o.pass()
                } else {
                    let msg = format!("singular linear system: returned Ok with a point that is not a solution (residual {res2:e})");
                    if method == 1 {
                        // recorded finding K2 (see known_findings.json): secant inverts the numerically
                        // singular finite-difference Jacobian; keyed by call site + input class + failure mode
                        o.fail_sig(msg, "secant:singular-linear-system:ok-not-a-solution")
                    } else {
                        o.fail(msg)
                    }
                }
            }
        };
    }
    let err_of = |x: &SVector<f64, S>| (0..S).map(|i| (x[i] - rv[i]).powi(2)).sum::<f64>().sqrt();
    if cap != 0 {
        o.label("exhaustion");
        o.nontrivial = true;
        return match res {
            Err(_) => o.pass(),
            Ok(x) => {
                let e = err_of(&x);
                if e <= bound {
                    o.label("exhaustion-ok");
                    o.pass()
                } else {
                    o.fail(format!("iteration cap {n_max}: returned Ok with a point {e:e} from the root (allowed {bound:e}) instead of Err"))
                }
            }
        };
    }
    if affine {
        o.label("affine");
    }
    match start {
        1 => o.label("start-on-root"),
        2 => o.label("start-origin"),
        _ => {}
    }
    if rnorm > 30.0 {
        o.label("far-root");
    }
    o.nontrivial = (!affine && S >= 2) || start != 0 || rnorm > 30.0 || tol <= 1e-8;
    match res {
        Err(e) => o.fail(format!("convergent class returned Err({e})")),
        Ok(x) => {
            let e = err_of(&x);
            o.set("ratio_err", e / bound);
            if e <= bound {
                o.pass()
            } else {
                o.fail(format!("returned a point {e:e} from the root; allowed 2 tol + floor = {bound:e}"))
            }
        }
    }
}

/// complex-valued systems (dimension 1-2): F(z) = A (z - r) + eta N(z - r) with the same N, holomorphic
fn run_sys_complex<const S: usize>(case: &Case, mut o: Obs) -> Outcome
where
    nalgebra::Const<S>: nalgebra::DimMin<nalgebra::Const<S>, Output = nalgebra::Const<S>>,
{
    let Case::Sys { method, a, scale, r, delta, eta, start, tol, h, .. } = case else { unreachable!() };
    let (method, scale, start, tol, h) = (*method, *scale, *start, *tol, *h);
    o.label("complex-system");
    o.label(if method == 0 { "newton" } else { "secant" });
    o.label(format!("dim{S}"));
    // entries: diagonal of modulus in [1,3] with phase pi a[i][3-i]/3, off-diagonal (a[i][j] + i a[j][i]) / 12
    let am: Vec<Vec<C64>> = (0..S)
        .map(|i| {
            (0..S)
                .map(|j| {
                    if i == j {
                        C64::from_polar(a[i * 4 + i].abs() * scale, std::f64::consts::PI * a[i * 4 + 3 - i] / 3.0)
                    } else {
                        c(a[i * 4 + j], a[j * 4 + i]) * (0.25 / 3.0) * scale
                    }
                })
                .collect()
        })
        .collect();
    let rv: Vec<C64> = (0..S).map(|i| c(r[i], r[(i + 2) % 4] * 0.5)).collect();
    let dlt: Vec<C64> = (0..S).map(|i| c(delta[i], delta[(i + 2) % 4])).collect();
    let dn = dlt.iter().map(|z| z.norm()).fold(0.0, f64::max);
    let adm = DMatrix::<C64>::from_fn(S, S, |i, j| am[i][j]);
    let Some(inv) = adm.clone().try_inverse() else { return o.discard("matrix unexpectedly singular") };
    let (kappa, beta) = (adm.norm() * inv.norm(), inv.norm());
    let affine = start == 2;
    let eta_eff = if affine { 0.0 } else { eta.min(0.1 / (beta * 6.0 * S as f64 * dn.max(1e-3))) };
    let x0: Vec<C64> = match start {
        0 => (0..S).map(|i| rv[i] + dlt[i]).collect(),
        1 => rv.clone(),
        _ => vec![c(0.0, 0.0); S],
    };
    let n_max = 100usize;
    let calls = Cell::new(0usize);
    let call_budget = (n_max + 3) * (2 * S + 3) + 8;
    let nl = |d: &[C64], i: usize| -> C64 { d[(i + 1) % S].sin() * d[i] + d[(i + 2) % S] * d[(i + 2) % S] };
    let f = |x: &[C64]| -> SVector<C64, S> {
        calls.set(calls.get() + 1);
        if calls.get() > call_budget {
            budget_exceeded("system function calls");
        }
        let d: Vec<C64> = (0..S).map(|i| x[i] - rv[i]).collect();
        SVector::<C64, S>::from_fn(|i, _| {
            let mut v = c(0.0, 0.0);
            for j in 0..S {
                v += am[i][j] * d[j];
            }
            v + nl(&d, i) * eta_eff
        })
    };
    let jac = |x: &[C64]| -> SMatrix<C64, S, S> {
        calls.set(calls.get() + 1);
        if calls.get() > call_budget {
            budget_exceeded("jacobian calls");
        }
        let d: Vec<C64> = (0..S).map(|i| x[i] - rv[i]).collect();
        SMatrix::<C64, S, S>::from_fn(|i, j| {
            let mut v = c(0.0, 0.0);
            if j == i {
                v += d[(i + 1) % S].sin();
            }
            if j == (i + 1) % S {
                v += d[(i + 1) % S].cos() * d[i];
            }
            if j == (i + 2) % S {
                v += d[(i + 2) % S] * 2.0;
            }
            am[i][j] + v * eta_eff
        })
    };
    let res = guard(|| if method == 0 { newton::<C64, _, _, S>(&x0, f, jac, tol, n_max) } else { secant::<C64, _, S>(&x0, f, h, tol, n_max) });
    o.set("calls", calls.get());
    let res = match res {
        Ok(r) => r,
        Err(Caught::Budget(w)) => return o.fail(format!("complex system: loops beyond its iteration cap: more than {call_budget} {w}")),
        Err(Caught::Panic(m)) => return o.fail(format!("complex system: panicked: {m}")),
    };
    let rnorm = rv.iter().map(|z| z.norm_sqr()).sum::<f64>().sqrt();
    // Newton: 2 tol as for real systems. The secant method's Broyden update transposes without conjugating, which still
    // satisfies the secant equation but is not the least-change update for complex data: its last step is a poorer
    // indicator of the distance to the root (worst seen 3.1 tol in 1.2e7 cases), hence 10 tol there.
    let bound = if method == 0 { 2.0 } else { 10.0 } * tol + 256.0 * EPS * kappa * (1.0 + rnorm);
    o.nontrivial = true;
    if affine {
        o.label("affine");
    }
    match res {
        Err(e) => o.fail(format!("complex system, convergent class, returned Err({e})")),
        Ok(x) => {
            if !x.iter().all(|v| v.re.is_finite() && v.im.is_finite()) {
                return o.fail("Ok result contains NaN or infinity");
            }
            let e = (0..S).map(|i| (x[i] - rv[i]).norm_sqr()).sum::<f64>().sqrt();
            o.set(if method == 0 { "ratio_err_complex_newton" } else { "ratio_err_complex_secant" }, e / bound);
            if e <= bound {
                o.pass()
            } else {
                o.fail(format!("complex system: returned a point {e:e} from the root; allowed 2 tol + floor = {bound:e}"))
            }
        }
    }
}

// --------------------------------------------------------------------------------------------
// polynomials

/// polynomial zero tolerance: 1e-30 for scaled-up or unscaled coefficients; for scaled-DOWN coefficients the default
/// 1e-10 is left in place (the root finders take the polynomial as it is: its own tolerance must not enter)
fn poly_real(cf: &[C64], scale: f64) -> Polynomial<f64> {
    let desc: Vec<f64> = cf.iter().rev().map(|z| z.re * scale).collect();
    let mut p = Polynomial::from_slice(&desc);
    if scale >= 1.0 {
        p.set_tolerance(1e-30).unwrap();
    }
    p
}

fn poly_cplx(cf: &[C64], scale: f64) -> Polynomial<C64> {
    let desc: Vec<C64> = cf.iter().rev().map(|z| z * scale).collect();
    let mut p = Polynomial::from_slice(&desc);
    if scale >= 1.0 {
        p.set_tolerance(1e-30).unwrap();
    }
    p
}

fn scale_of(o: &mut Obs, scale_exp: f64) -> f64 {
    if scale_exp != 0.0 {
        o.label("poly-scaled");
        if scale_exp <= -4.0 {
            o.label("poly-scaled-small");
        }
    }
    10f64.powf(scale_exp)
}

/// evaluation-noise floor of a root: 64 eps sum|c_k||z|^k / |p'(z)|
fn root_floor(cf: &[C64], rs: &RootSet, idx: usize) -> f64 {
    let z = rs.all_roots()[idx];
    256.0 * EPS * abs_scale_c(cf, z.norm()) / deriv_at_root(rs, idx).max(1e-300)
}

fn run_newton_poly(case: &Case, mut o: Obs) -> Outcome {
    let Case::NewtonPoly { complex_field, rs, target, rho, angle, tol, scale_exp, cap } = case else { unreachable!() };
    let n_max = if *cap == 0 { 100 } else { *cap as usize - 1 };
    if *cap != 0 {
        o.label("poly-exhaustion");
    }
    let scale = scale_of(&mut o, *scale_exp);
    let roots = rs.all_roots();
    let n = roots.len();
    let idx = target % n;
    let z = roots[idx];
    let cf = rs.coeffs();
    let real_ok = !*complex_field && z.im == 0.0 && rs.real_coeffs;
    o.label(if real_ok { "newton-poly-real" } else { "newton-poly-complex" });
    o.label(format!("deg{n}"));
    // start inside the guaranteed basin: |x0 - z| <= 0.8 d / (2n - 1), d = distance to the nearest other root
    let d = roots.iter().enumerate().filter(|(j, _)| *j != idx).map(|(_, w)| (w - z).norm()).fold(f64::INFINITY, f64::min);
    let rad = if n == 1 { 0.5 } else { 0.8 * d / (2.0 * n as f64 - 1.0) };
    let off = c(angle.cos(), angle.sin()) * (rho * rad);
    let bound = 2.0 * tol + root_floor(&cf, rs, idx);
    let res: Result<Result<C64, String>, Caught> = if real_ok {
        let p = poly_real(&cf, scale);
        let x0 = z.re + off.re.signum() * rho * rad;
        guard(|| newton_polynomial(x0, &p, *tol, n_max).map(|x| c(x, 0.0)))
    } else {
        let p = poly_cplx(&cf, scale);
        guard(|| newton_polynomial(z + off, &p, *tol, n_max))
    };
    if *rho == 0.0 {
        o.label("start-on-root");
    }
    if z.norm() < 0.11 {
        o.label("root-near-origin");
    }
    o.nontrivial = n >= 2;
    match res {
        Err(Caught::Panic(m)) => o.fail(format!("panicked: {m}")),
        Err(Caught::Budget(_)) => o.fail("budget"),
        Ok(Err(_)) if *cap != 0 => o.pass(),
        Ok(Err(e)) => o.fail(format!("start within the Newton basin of a simple root returned Err({e})")),
        Ok(Ok(x)) => {
            if !(x.re.is_finite() && x.im.is_finite()) {
                return o.fail("Ok result is not finite");
            }
            let e = (x - z).norm();
            o.set("ratio_err", e / bound);
            if e <= bound {
                o.pass()
            } else {
                o.fail(format!("returned {x}, {e:e} from the nearby simple root {z} (allowed {bound:e})"))
            }
        }
    }
}

fn run_muller(case: &Case, mut o: Obs) -> Outcome {
    let Case::Muller { complex_field, rs, target, offs, vertical, near, tol, scale_exp, cap, far } = case else { unreachable!() };
    let n_max = if *cap == 0 { 100 } else { *cap as usize - 1 };
    if *cap != 0 {
        o.label("poly-exhaustion");
    }
    let scale = scale_of(&mut o, *scale_exp);
    let roots = rs.all_roots();
    let n = roots.len();
    let idx = target % n;
    let z = roots[idx];
    let cf0 = rs.coeffs();
    let mut cf = cf0.clone();
    let mut roots = roots;
    if let Some((e, neg)) = far {
        let r = if *neg { -(10f64.powf(*e)) } else { 10f64.powf(*e) };
        let mut ext = cf.clone();
        ext.push(c(0.0, 0.0));
        for k in 1..ext.len() {
            ext[k] -= cf[k - 1] / r;
        }
        cf = ext;
        roots.push(c(r, 0.0));
        o.label("muller-distant-extra-root");
    }
    let use_real = !*complex_field && rs.real_coeffs;
    o.label(if use_real { "muller-real-field" } else { "muller-complex-field" });
    let d = roots.iter().enumerate().filter(|(j, _)| *j != idx).map(|(_, w)| (w - z).norm()).fold(3.0, f64::min);
    // near class: three distinct points within 0.1 d of the root; generic: within 1.5 (may legitimately fail)
    let rad = if *near { 0.1 * d } else { 1.5 };
    // three distinct starting points by construction: distinct radii in [0.2, 0.9] x rad (never on the
    // root itself: an iterate that coincides exactly with the point two steps back makes the divided
    // difference 0/0, a documented-as-Err degenerate start), directions from the second coordinate
    let mut pts: Vec<C64> = offs
        .iter()
        .enumerate()
        .map(|(k, &(a, b))| {
            let radius = (0.2 + 0.25 * k as f64 + 0.2 * a.abs()) * rad;
            if use_real {
                z + c(if b >= 0.0 { radius } else { -radius }, 0.0)
            } else {
                let ang = std::f64::consts::PI * b;
                z + c(ang.cos(), ang.sin()) * radius
            }
        })
        .collect();
    if *vertical && !use_real {
        // equal real parts, distinct imaginary parts
        let re = z.re + 0.3 * rad * if offs[0].0 >= 0.0 { 1.0 } else { -1.0 };
        let sg = if offs[0].1 >= 0.0 { 1.0 } else { -1.0 };
        for (k, p) in pts.iter_mut().enumerate() {
            p.re = re;
            p.im = z.im + sg * rad * (0.2 + 0.25 * k as f64 + 0.2 * offs[k].0.abs());
        }
        o.label("muller-vertical");
    }
    let res: Result<Result<C64, String>, Caught> = if use_real {
        let p = poly_real(&cf, scale);
        guard(|| muller_polynomial((pts[0].re, pts[1].re, pts[2].re), &p, *tol, n_max))
    } else {
        let p = poly_cplx(&cf, scale);
        guard(|| muller_polynomial((pts[0], pts[1], pts[2]), &p, *tol, n_max))
    };
    o.label(if *near { "muller-near" } else { "muller-generic" });
    // real starting points next to the real part of a complex root are not "near the root": only the near class
    // around a root reachable from the given field is judged, the rest is sanity-checked
    let judged = *near && (!use_real || z.im == 0.0);
    o.nontrivial = n >= 2;
    match res {
        Err(Caught::Panic(m)) => o.fail(format!("panicked: {m}")),
        Err(Caught::Budget(_)) => o.fail("budget"),
        Ok(Err(e)) => {
            // real-field triples near a complex root cannot be expected to converge quickly; only the
            // near class around a root reachable from the given field is required to succeed
            if *cap != 0 {
                o.label("muller-err");
                o.pass()
            } else if judged {
                o.fail(format!("three points within 0.1 of the separation from a simple root returned Err({e})"))
            } else {
                o.label("muller-err");
                o.pass()
            }
        }
        Ok(Ok(x)) => {
            if !(x.re.is_finite() && x.im.is_finite()) {
                return o.fail("Ok result is not finite");
            }
            // must be a root of the polynomial (any of them)
            let (mut best, mut bi) = (f64::INFINITY, 0);
            for (j, w) in roots.iter().enumerate() {
                if (x - w).norm() < best {
                    best = (x - w).norm();
                    bi = j;
                }
            }
            let bound = 2.0 * tol + if bi < n { root_floor(&cf0, rs, bi) } else { 64.0 * EPS * roots[bi].norm() };
            if best <= bound {
                // only the judged (near) class contributes to the margin statistics
                o.set(if judged { "ratio_err" } else { "wide_err_over_bound" }, best / bound);
                o.pass()
            } else if !judged {
                // Wide triples: the stopping rule (two consecutive iterates within tol) is a heuristic
                // that can fire by coincidence far from the convergent regime (observed about once per
                // 1e3 wide triples at tol ~ 1e-3); such starts are outside "started near a root", so
                // they are counted, not judged. The near class below is the deciding one.
                o.label("muller-wide-premature-stop");
                o.pass()
            } else {
                o.fail(format!("returned {x}, which is {best:e} from the nearest root (allowed {bound:e})"))
            }
        }
    }
}

// --------------------------------------------------------------------------------------------
// Steffensen (fn pointers: counters live in thread-locals)

thread_local! {
    static STEFF_CALLS: Cell<usize> = Cell::new(0);
    static STEFF_BUDGET: Cell<usize> = Cell::new(usize::MAX);
    static STEFF_RELAX: Cell<f64> = Cell::new(0.0);
}

/// under-relaxation of a catalogue map: k x + (1 - k) r(x) (k = 0: the map itself, bit for bit)
fn relaxed(x: f64, rx: f64) -> f64 {
    let k = STEFF_RELAX.with(|r| r.get());
    if k == 0.0 {
        rx
    } else {
        k * x + (1.0 - k) * rx
    }
}

fn tick() {
    STEFF_CALLS.with(|c| c.set(c.get() + 1));
    if STEFF_CALLS.with(|c| c.get()) > STEFF_BUDGET.with(|b| b.get()) {
        budget_exceeded("steffensen function calls");
    }
}

fn r0(x: f64) -> f64 {
    x.cos()
}
fn r1(x: f64) -> f64 {
    (-x).exp()
}
fn r2(x: f64) -> f64 {
    (10.0 / (x + 4.0)).sqrt()
}
fn r3(x: f64) -> f64 {
    0.5 * x + 1.0
}
fn r4(x: f64) -> f64 {
    1.0 + 0.3 * x.sin()
}
fn r5(x: f64) -> f64 {
    0.5 * (x + 2.0 / x)
}
fn r6(x: f64) -> f64 {
    // defined for x >= 0.9 only (unique fixed point 1.3266): an extrapolated iterate below 0.9 gives NaN, and the
    // routine must then end in Err
    1.0 + (x - 0.9).sqrt() / 2.0
}
fn g6(x: f64) -> f64 {
    tick();
    relaxed(x, r6(x))
}
fn g0(x: f64) -> f64 {
    tick();
    relaxed(x, r0(x))
}
fn g1(x: f64) -> f64 {
    tick();
    relaxed(x, r1(x))
}
fn g2(x: f64) -> f64 {
    tick();
    relaxed(x, r2(x))
}
fn g3(x: f64) -> f64 {
    tick();
    relaxed(x, r3(x))
}
fn g4(x: f64) -> f64 {
    tick();
    relaxed(x, r4(x))
}
fn g5(x: f64) -> f64 {
    tick();
    relaxed(x, r5(x))
}

/// (counted function, raw function, rough location of the fixed point, basin half-width, name)
const STEFF: [(fn(f64) -> f64, fn(f64) -> f64, f64, f64, &str); 7] = [
    (g0, r0, 0.739, 0.5, "cos"),
    (g1, r1, 0.567, 0.4, "exp(-x)"),
    (g2, r2, 1.365, 0.5, "sqrt(10/(x+4))"),
    (g3, r3, 2.0, 3.0, "0.5x+1"),
    (g4, r4, 1.288, 0.5, "1+0.3sin"),
    (g5, r5, 1.414, 0.3, "heron"),
    (g6, r6, 1.3266, 0.4, "1+sqrt(x-0.9)/2"),
];

/// the fixed point, by plain iteration of the contraction in the harness
fn fixed_point(raw: fn(f64) -> f64, near: f64) -> f64 {
    let mut x = near;
    for _ in 0..400 {
        x = raw(x);
    }
    x
}

fn run_steff(case: &Case, mut o: Obs) -> Outcome {
    let Case::Steff { func, off, tol, cap, relax } = case else { unreachable!() };
    let (g, raw, near, basin, name) = STEFF[*func as usize % STEFF.len()];
    let fix = fixed_point(raw, near);
    o.label(format!("steffensen-{name}"));
    // slope of the relaxed map at the fixed point (central difference of the catalogue map)
    let slope = relax + (1.0 - relax) * (raw(fix + 1e-5) - raw(fix - 1e-5)) / 2e-5;
    if *relax != 0.0 {
        o.label("steffensen-relaxed");
    }
    if slope >= 0.75 {
        o.label("steffensen-slow-contraction");
    }
    let x0 = fix + off * basin;
    // Aitken's formula divides by g(g(x)) - 2 g(x) + x ~ (1-k)^2 (x - x*): its rounding noise limits the
    // attainable accuracy to ~ eps |x| / (1-k)^2, so slow contractions are asked for no more than 1e3 times that
    // (the catalogue maps themselves, k <= 0.5, keep the full tolerance range)
    let noise = EPS * fix.abs().max(1.0) / ((1.0 - slope) * (1.0 - slope)).max(1e-4);
    let tol = &(if *relax != 0.0 { tol.max(1e3 * noise) } else { *tol });
    STEFF_CALLS.with(|c| c.set(0));
    STEFF_BUDGET.with(|b| b.set(2 * cap + 4));
    STEFF_RELAX.with(|r| r.set(*relax));
    let res = guard(|| steffensen(x0, g, *tol, *cap));
    STEFF_RELAX.with(|r| r.set(0.0));
    STEFF_BUDGET.with(|b| b.set(usize::MAX));
    o.set("calls", STEFF_CALLS.with(|c| c.get()));
    o.nontrivial = true;
    if *tol <= 1e-12 {
        o.label("steffensen-tight-tol");
    }
    match res {
        Err(Caught::Panic(m)) => o.fail(format!("panicked: {m}")),
        Err(Caught::Budget(_)) => o.fail(format!("more than {} function calls with n_max = {cap}", 2 * cap + 4)),
        Ok(Err(e)) => {
            if name.contains("sqrt(x-0.9)") {
                // the map is undefined left of 1: an extrapolated iterate can leave the domain (NaN), and Err is then the
                // required outcome - what must never come back is Ok(NaN)
                o.label("steffensen-left-domain-err");
                o.pass()
            } else if *cap >= 50 {
                o.fail(format!("contraction {name} from x0 = {x0} with tol {tol:e} returned Err({e})"))
            } else {
                o.label("exhaustion");
                o.pass()
            }
        }
        Ok(Ok(x)) => {
            if !x.is_finite() {
                return o.fail("Ok result is not finite");
            }
            // residual of the map that was iterated: (1 - relax) (r(x) - x)
            let resid = (1.0 - relax) * (raw(x) - x).abs();
            let bound = 10.0 * tol + 16.0 * EPS * x.abs().max(1.0);
            // distance to the fixed point: the accepted iterate is the Aitken value of a point within tol of
            // it, so its error is O(tol^2) plus the rounding noise of the formula, ~ eps |x| / (1 - slope)^2
            let dist = (x - fix).abs();
            let dbound = 3.0 * tol + 64.0 * noise;
            o.set("ratio_resid", resid / bound);
            o.set("ratio_dist", dist / dbound);
            if resid <= bound && dist <= dbound {
                o.pass()
            } else {
                o.fail(format!("returned {x:e}: |g(x)-x| = {resid:e} (allowed {bound:e}), distance to the fixed point {dist:e} (allowed {dbound:e}; slope at the fixed point {slope:.3})"))
            }
        }
    }
}

pub fn run_case(case: &Case) -> Outcome {
    let o = Obs::new();
    match case {
        Case::Sys { dim, complex: true, .. } => match dim {
            1 => run_sys_complex::<1>(case, o),
            _ => run_sys_complex::<2>(case, o),
        },
        Case::Sys { dim, .. } => match dim {
            1 => run_sys::<1>(case, o),
            2 => run_sys::<2>(case, o),
            3 => run_sys::<3>(case, o),
            _ => run_sys::<4>(case, o),
        },
        Case::NewtonPoly { .. } => run_newton_poly(case, o),
        Case::Muller { .. } => run_muller(case, o),
        Case::Steff { .. } => run_steff(case, o),
    }
}

/// decimal exponent of a common factor on all coefficients: none, or 10^[-8, 4]
fn scale_exp() -> BoxedStrategy<f64> {
    prop_oneof![3 => Just(0.0), 2 => gen::fl(-8.0, 4.0), 1 => gen::fl(-13.0, -9.0)].boxed()
}

/// iteration cap of the polynomial routines: 100, or (one case in six) 0..6 iterations
fn pcap() -> BoxedStrategy<u8> {
    prop_oneof![5 => Just(0u8), 1 => 1u8..=7].boxed()
}

fn strategy(_t: Tier) -> BoxedStrategy<Case> {
    let diag = (gen::fl(1.0, 3.0), gen::sign()).prop_map(|(m, s)| m * s);
    let _ = diag;
    let entry = gen::fl(-3.0, 3.0);
    let sys = (
        (1usize..=4, 0u8..2, proptest::collection::vec(entry, 16), gen::logu(-1.0, 1.0)),
        (
            prop_oneof![
                3 => proptest::collection::vec(gen::fl(-3.0, 3.0), 4),
                1 => Just(vec![0.0; 4]),
                2 => proptest::collection::vec(gen::fl(-100.0, 100.0), 4),
            ],
            proptest::collection::vec(gen::fl(-0.3, 0.3), 4),
            gen::logu(-2.0, 0.5),
            prop_oneof![6 => Just(0u8), 1 => Just(1u8), 1 => Just(2u8)],
        ),
        (gen::logu(-10.0, -3.0), gen::logu(-4.0, -1.0), prop_oneof![10 => Just(0u8), 1 => 1u8..=3], prop_oneof![12 => Just(false), 1 => Just(true)], prop_oneof![4 => Just((0u8, false)), 2 => Just((1u8, false)), 1 => Just((0u8, true))]),
    )
        .prop_map(|((dim, method, mut a, scale), (r, delta, eta, start), (tol, h, cap, singular, (shape, complex)))| {
            // diagonal entries of magnitude in [1,3]
            for i in 0..4 {
                let v: f64 = a[i * 4 + i];
                a[i * 4 + i] = if v >= 0.0 { 1.0 + v * 2.0 / 3.0 } else { -1.0 + v * 2.0 / 3.0 };
            }
            // the complex class: dimension 1-2, convergent class only
            let (dim, cap, singular) = if complex { (1 + dim % 2, 0, false) } else { (dim, cap, singular) };
            Case::Sys { dim, method, a, scale, r, delta, eta, start, tol, h, cap, singular, shape, complex }
        });
    let npoly = (any::<bool>(), prop_oneof![real_roots_only(1, 8), real_rootset(1, 8), complex_rootset(1, 8)], 0usize..8, prop_oneof![1 => Just(0.0), 6 => gen::fl(0.0, 1.0)], gen::fl(0.0, 6.2831), gen::logu(-10.0, -3.0), (scale_exp(), pcap()))
        .prop_map(|(complex_field, rs, target, rho, angle, tol, (scale_exp, cap))| Case::NewtonPoly { complex_field, rs, target, rho, angle, tol, scale_exp, cap });
    let off = || (gen::fl(-1.0, 1.0), gen::fl(-1.0, 1.0));
    // degree 1 (a parabola through three points of a line has no curvature) to 8; one case in six multiplied by
    // (1 - x/R), |R| = 10^[5,14]: a distant extra root, i.e. a tiny leading coefficient
    let muller = (any::<bool>(), prop_oneof![1 => real_roots_only(1, 1), 3 => real_roots_only(2, 8), 3 => real_rootset(2, 8), 3 => complex_rootset(2, 8)], 0usize..8, [off(), off(), off()], prop_oneof![3 => Just(false), 1 => Just(true)], prop_oneof![3 => Just(true), 1 => Just(false)], gen::logu(-10.0, -3.0), (scale_exp(), pcap(), prop_oneof![5 => Just(None), 1 => (gen::fl(5.0, 14.0), any::<bool>()).prop_map(Some)]))
        .prop_map(|(complex_field, rs, target, offs, vertical, near, tol, (scale_exp, cap, far))| Case::Muller { complex_field, rs, target, offs, vertical, near, tol, scale_exp, cap, far });
    let relax = prop_oneof![2 => Just(0.0), 1 => gen::fl(0.0, 0.9), 2 => gen::fl(0.7, 0.97)];
    let steff = (0u8..7, gen::fl(-1.0, 1.0), gen::logu(-14.0, -3.0), prop_oneof![8 => Just(100usize), 1 => 0usize..3], relax).prop_map(|(func, off, tol, cap, relax)| Case::Steff { func, off, tol, cap, relax });
    prop_oneof![8 => sys, 4 => npoly, 4 => muller, 3 => steff].boxed()
}

pub fn run(opts: &Opts) -> i32 {
    let mut spec = Spec::new("C08", strategy, run_case);
    // deterministic seeds: identity systems from the origin, start on the root, both methods
    for dim in 1..=4usize {
        for method in 0..2u8 {
            for start in 0..3u8 {
                let mut a = vec![0.1; 16];
                for i in 0..4 {
                    a[i * 4 + i] = 2.0;
                }
                spec.enumerated.push(Case::Sys { dim, method, a, scale: 1.0, r: vec![1.0, -2.0, 0.5, 3.0], delta: vec![0.1, -0.2, 0.05, 0.1], eta: 0.5, start, tol: 1e-8, h: 1e-2, cap: 0, singular: false, shape: 0, complex: false });
            }
        }
    }
    for func in 0..7u8 {
        for tol in [1e-4, 1e-13] {
            spec.enumerated.push(Case::Steff { func, off: 0.5, tol, cap: 100, relax: 0.0 });
            spec.enumerated.push(Case::Steff { func, off: 0.25, tol, cap: 100, relax: 0.9 });
        }
    }
    spec.cases = opts.tier.pick(600_000, 20_000_000);
    spec.essential = vec![
        ("newton", 0.15),
        ("secant", 0.15),
        ("affine", 0.03),
        ("start-origin", 0.02),
        ("start-on-root", 0.03),
        ("far-root", 0.05),
        ("singular", 0.01),
        ("exhaustion", 0.02),
        ("newton-poly-real", 0.03),
        ("newton-poly-complex", 0.05),
        ("muller-vertical", 0.02),
        ("muller-near", 0.1),
        ("steffensen-tight-tol", 0.005),
        ("steffensen-slow-contraction", 0.01),
        ("poly-scaled-small", 0.02),
        ("poly-exhaustion", 0.03),
        ("dim4", 0.05),
        ("rotation-shaped-jacobian", 0.05),
        ("complex-system", 0.03),
    ];
    spec.rule = "generated: (a) systems F(x)=A(x-r)+eta*N(x-r) of dimension 1-4, A strictly diagonally dominant (|diag| in [1,3], |offdiag| <= 0.25) or diag(|a_kk|) times a product of plane rotations by arbitrary angles (well conditioned, far from symmetric), times 10^[-1,1]; one case in seven a complex-valued system of dimension 1-2 (complex entries, roots and starts, same holomorphic non-linearity); N_i(d)=sin(d_{i+1})d_i+d_{i+2}^2, eta capped so that beta*gamma*|delta|<=0.1, roots in [-3,3]^S, at the origin, or far (|r_i|<=100), starts r+delta (|delta_i|<=0.3), exactly r, or the origin (affine), tol 10^[-10,-3], FD width 10^[-4,-1], n_max=100 or exhaustion caps 0..2, singular class with duplicate integer rows; Newton and secant. (b) polynomials of degree 1-8 expanded from separated roots (grid construction, separation >= 0.3, |z|<=3), Newton starts within 0.8 d/(2n-1) of a chosen root in real and complex arithmetic, Muller triples within 0.1 d (must converge) or 1.5 (may fail), incl. vertical triples, degree-1 polynomials, and one Muller case in six multiplied by (1 - x/R), |R| = 10^[5,14] (a distant extra root: leading coefficient many orders below the others); one case in six with an iteration cap of 0-6 (Err, or an Ok that meets the accuracy bound). all coefficients optionally multiplied by 10^[-13,4] (roots unchanged; scaled-down polynomials keep the default zero tolerance 1e-10, which may exceed their leading coefficient and must not matter). (c) Steffensen on six contractions r (and a seventh defined on x >= 0.9 only, where an iterate leaving the domain must end in Err, never Ok(NaN)) and their under-relaxations k x+(1-k) r(x), k in [0,0.97] (same fixed point, slope up to ~0.98), with tolerances 10^[-14,-3]. Oracle: Ok within 2 tol + rounding floor of the root (nearest root for Muller; |g(x)-x| <= 10 tol and distance to the fixed point <= 3 tol + 64 eps|x|/(1-slope)^2 for Steffensen; relaxed maps get tol >= 1e3 eps|x|/(1-slope)^2), Err on singular/exhausted input (or an Ok that meets the accuracy bound), never a panic/NaN, call counts bounded exactly by the iteration cap (Newton: at most n_max evaluations each of F and J; secant: 1 + 2S + max(0, n_max-2) of F). Non-trivial = non-affine system of dimension >= 2, special start, far root, tol <= 1e-8, polynomial degree >= 2, every Steffensen case. Distinct = distinct case JSON.".into();
    spec.max_shrink_iters = 3000;
    run_spec(spec, opts)
}

//! C14 — polynomial root finding returns the complete, accurate multiset of roots;
//! zeros of Legendre / Hermite / Laguerre polynomials.

use crate::polygen::*;
use bacon_sci::polynomial::Polynomial;
use bacon_sci::special::{hermite_zeros, laguerre_zeros, legendre_zeros};
use bverif::engine::*;
use bverif::refs::num::*;
use proptest::prelude::*;
use serde::{Deserialize, Serialize};

#[derive(Clone, Debug, Serialize, Deserialize)]
pub enum Case {
    /// roots of a polynomial expanded from separated roots; `complex_field`: pass real-coefficient
    /// polynomials as Polynomial<Complex<f64>> as well
    Roots {
        rs: RootSet,
        complex_field: bool,
        tol_exp: f64,
        #[serde(default)]
        lead: LeadScale,
        /// one real root (if the set has one and no other root lies within 0.3 of the origin) is moved to +-10^tiny: a
        /// root far smaller than the others, a constant coefficient that can fall below the tolerance
        #[serde(default)]
        tiny: Option<(f64, bool)>,
    },
    /// c_n x^n - c_0 set through set_coefficient (all low-order derivatives vanish at the origin)
    Sparse {
        n: usize,
        cn: f64,
        rho: f64,
        phi: f64,
        complex_field: bool,
        tol_exp: f64,
        #[serde(default)]
        lead: LeadScale,
    },
    /// 0 Legendre, 1 Hermite, 2 Laguerre
    Zeros {
        family: u8,
        n: u32,
        /// false: tol 1e-10, polynomial tolerance 1e-14; true: tol min(1e-10, 0.5/n!) and polynomial tolerance 1e-6 of
        /// that (the root finder refuses a leading coefficient below its tolerance, and the Laguerre polynomial's is 1/n!)
        #[serde(default)]
        tight: bool,
    },
}

/// A common factor on all coefficients (the roots do not move): 10^exp, times a unit complex number in the
/// complex field (phase 0: 1, 1: i, 2: -1, 3: -i, 4: e^{i angle})
#[derive(Clone, Debug, Default, Serialize, Deserialize)]
pub struct LeadScale {
    pub exp: f64,
    pub phase: u8,
    pub angle: f64,
}

impl LeadScale {
    fn factor(&self, complex_field: bool) -> C64 {
        let m = 10f64.powf(self.exp);
        if !complex_field {
            return c(m, 0.0);
        }
        match self.phase {
            0 => c(m, 0.0),
            1 => c(0.0, m),
            2 => c(-m, 0.0),
            3 => c(0.0, -m),
            _ => C64::from_polar(m, self.angle),
        }
    }
    fn label(&self, o: &mut Obs, complex_field: bool) {
        if self.exp != 0.0 {
            o.label("lead-scaled");
            if self.exp <= -1.0 {
                o.label("lead-small");
            }
        }
        if complex_field && self.phase != 0 {
            o.label("lead-complex-phase");
            if self.phase == 1 || self.phase == 3 {
                o.label("lead-purely-imaginary");
            }
        }
    }
}

fn lead_scale() -> BoxedStrategy<LeadScale> {
    (prop_oneof![3 => Just(0.0), 2 => gen::fl(-3.0, 3.0)], prop_oneof![3 => Just(0u8), 1 => Just(1u8), 1 => Just(2u8), 1 => Just(3u8), 2 => Just(4u8)], gen::fl(0.0, 6.2831))
        .prop_map(|(exp, phase, angle)| LeadScale { exp, phase, angle })
        .boxed()
}

const N_MAX: usize = 200;

/// evaluation noise floor used as the lower end of the tolerance range
fn noise_floor(cf: &[C64]) -> f64 {
    let n = cf.len() as f64;
    4.0 * n * EPS * abs_scale_c(cf, 3.0)
}

fn judge_roots(mut o: Obs, found: Result<Vec<C64>, Caught>, truth: &[C64], derivs: &[f64], tol: f64, real_coeffs: bool) -> Outcome {
    let found = match found {
        Ok(v) => v,
        Err(Caught::Panic(m)) => return o.fail(format!("panicked: {m}")),
        Err(Caught::Budget(_)) => return o.fail("budget"),
    };
    let n = truth.len();
    if found.len() != n {
        return o.fail(format!("returned {} roots for a polynomial of degree {n}", found.len()));
    }
    if found.iter().any(|z| !z.re.is_finite() || !z.im.is_finite()) {
        return o.fail("a returned root is not finite");
    }
    let dmin = derivs.iter().cloned().fold(f64::INFINITY, f64::min);
    // an absolute residual tol moves a simple root by about tol / |p'(r)|
    let bound = 2.0 * tol * (2.0 / dmin).max(if dmin >= 1e-3 { 1.0 } else { 0.0 }) + 1e-9;
    if bound > 0.05 {
        // a residual tolerance this loose (scaled-down coefficients) does not pin the roots down to a third of their separation
        return o.discard("tolerance too loose for an unambiguous matching");
    }
    // greedy one-to-one matching (unambiguous at separation >= 0.3 as long as bound << 0.15)
    let mut used = vec![false; n];
    let mut worst: f64 = 0.0;
    for (k, z) in found.iter().enumerate() {
        let (mut best, mut bi) = (f64::INFINITY, usize::MAX);
        for (j, w) in truth.iter().enumerate() {
            if !used[j] && (z - w).norm() < best {
                best = (z - w).norm();
                bi = j;
            }
        }
        if bi == usize::MAX || !(best <= bound) {
            return o.fail(format!("returned root #{k} = {z} does not match any remaining true root (nearest unused at distance {best:e}, allowed {bound:e}); roots are not matched one-to-one"));
        }
        used[bi] = true;
        worst = worst.max(best);
    }
    o.set("ratio_match", worst / bound);
    if real_coeffs {
        // closed under conjugation
        for z in &found {
            let d = found.iter().map(|w| (w - z.conj()).norm()).fold(f64::INFINITY, f64::min);
            if !(d <= 2.0 * bound) {
                return o.fail(format!("real coefficients, but the conjugate of {z} is not among the returned roots (nearest at {d:e})"));
            }
        }
    }
    o.pass()
}

fn roots_of(cf: &[C64], real_field: bool, tol: f64) -> Result<Result<Vec<C64>, String>, Caught> {
    // the polynomial's own zero tolerance: 1e-14, or a thousandth of the leading coefficient when that is smaller
    let ptol = (1e-3 * cf.last().unwrap().norm()).min(1e-14);
    if real_field {
        let mut p: Polynomial<f64> = Polynomial::new();
        p.set_tolerance(ptol).unwrap();
        for (k, a) in cf.iter().enumerate() {
            if a.re != 0.0 || k == 0 {
                p.set_coefficient(k as u32, a.re);
            }
        }
        guard(|| p.roots(tol, N_MAX).map(|v| v.into_iter().collect()))
    } else {
        let mut p: Polynomial<C64> = Polynomial::new();
        p.set_tolerance(ptol).unwrap();
        for (k, a) in cf.iter().enumerate() {
            if a.norm() != 0.0 || k == 0 {
                p.set_coefficient(k as u32, *a);
            }
        }
        guard(|| p.roots(tol, N_MAX).map(|v| v.into_iter().collect()))
    }
}

// ---- reference orthogonal polynomials by the (stable) three-term recurrences in f64
fn ortho_eval(family: u8, n: u32, x: f64) -> f64 {
    let (mut p0, mut p1) = match family {
        0 => (1.0, x),
        1 => (1.0, 2.0 * x),
        _ => (1.0, 1.0 - x),
    };
    if n == 0 {
        return p0;
    }
    for k in 1..n {
        let kf = k as f64;
        let p2 = match family {
            0 => ((2.0 * kf + 1.0) * x * p1 - kf * p0) / (kf + 1.0),
            1 => 2.0 * x * p1 - 2.0 * kf * p0,
            _ => ((2.0 * kf + 1.0 - x) * p1 - kf * p0) / (kf + 1.0),
        };
        p0 = p1;
        p1 = p2;
    }
    p1
}

fn reference_zeros(family: u8, n: u32) -> Vec<f64> {
    // all zeros are real, simple and inside these intervals (Szego 6.2, 6.31)
    let (lo, hi) = match family {
        0 => (-1.0, 1.0),
        1 => {
            let b = (2.0 * n as f64 + 1.0).sqrt() + 0.5;
            (-b, b)
        }
        _ => (0.0, 4.0 * n as f64 + 3.0),
    };
    let steps = 40_000;
    let mut zs = vec![];
    let mut xl = lo;
    let mut fl = ortho_eval(family, n, xl);
    for i in 1..=steps {
        let xr = lo + (hi - lo) * i as f64 / steps as f64;
        let fr = ortho_eval(family, n, xr);
        if fl == 0.0 {
            zs.push(xl);
        } else if (fl > 0.0) != (fr > 0.0) && fr != 0.0 {
            let (mut a, mut b, mut fa) = (xl, xr, fl);
            for _ in 0..80 {
                let m = 0.5 * (a + b);
                let fm = ortho_eval(family, n, m);
                if (fm > 0.0) == (fa > 0.0) {
                    a = m;
                    fa = fm;
                } else {
                    b = m;
                }
            }
            zs.push(0.5 * (a + b));
        }
        xl = xr;
        fl = fr;
    }
    zs
}

pub fn run_case(case: &Case) -> Outcome {
    let mut o = Obs::new();
    match case {
        Case::Roots { rs, complex_field, tol_exp, lead, tiny } => {
            let mut rs2 = rs.clone();
            if let Some((e, neg)) = tiny {
                if let Some(k) = rs2.roots.iter().position(|r| r.1 == 0.0) {
                    if rs2.roots.iter().enumerate().all(|(j, r)| j == k || (r.0 * r.0 + r.1 * r.1).sqrt() >= 0.3) {
                        rs2.roots[k].0 = if *neg { -(10f64.powf(*e)) } else { 10f64.powf(*e) };
                        o.label("tiny-root");
                    }
                }
            }
            let rs = &rs2;
            let truth = rs.all_roots();
            let n = truth.len();
            let real_field = rs.real_coeffs && !*complex_field;
            let fac = lead.factor(!real_field);
            lead.label(&mut o, !real_field);
            let cf: Vec<C64> = rs.coeffs().iter().map(|z| z * fac).collect();
            let floor = noise_floor(&cf);
            // tolerance: from 10x the evaluation noise floor upwards (to 1e-6 x the common factor when that is larger);
            // the same number is the step tolerance of the polishing Newton iteration, which cannot go below the
            // rounding of the roots themselves however small the coefficients are: for scaled-down coefficients
            // the lower end stays where it is for the unscaled polynomial
            let lo = if lead.exp < 0.0 { 10.0 * floor / fac.norm() } else { 10.0 * floor };
            let hi = lo.max(1e-6 * fac.norm().min(1.0));
            if lead.exp < 0.0 && lo > 1e-6 * fac.norm() {
                // scaled-down coefficients: the residual tolerance must stay <= 1e-6 relative to the scaling, the
                // Newton step tolerance above the rounding of the roots; no admissible value is left
                return o.discard("no admissible tolerance for the scaled-down polynomial");
            }
            let tol = lo * (hi / lo).powf(tol_exp.clamp(0.0, 1.0)) * if *tol_exp > 1.0 { 10f64.powf(tol_exp - 1.0) } else { 1.0 };
            o.set("tol", tol);
            o.set("degree", n);
            if !(tol <= 0.5 * cf.last().unwrap().norm()) {
                // the root finder refuses a leading coefficient below its tolerance (documented Err)
                return o.discard("tolerance not below the scaled leading coefficient");
            }
            o.label(if real_field { "real-field" } else if rs.real_coeffs { "real-coeffs-complex-field" } else { "complex-coeffs" });
            o.label(format!("deg{n}"));
            if rs.real_coeffs && rs.roots.iter().any(|r| r.1 != 0.0) {
                o.label("conjugate-pairs");
            }
            o.nontrivial = n >= 3;
            let derivs: Vec<f64> = (0..n).map(|i| deriv_at_root(rs, i) * fac.norm()).collect();
            let res = roots_of(&cf, real_field, tol);
            let res = match res {
                Ok(Ok(v)) => Ok(v),
                Ok(Err(e)) => return o.fail(format!("separated roots, non-negligible leading coefficient: roots() returned Err({e})")),
                Err(c) => Err(c),
            };
            judge_roots(o, res, &truth, &derivs, tol, rs.real_coeffs)
        }
        Case::Sparse { n, cn, rho, phi, complex_field, tol_exp, lead } => {
            let fac = lead.factor(*complex_field);
            lead.label(&mut o, *complex_field);
            let n = *n;
            o.label("sparse");
            o.label(format!("deg{n}"));
            o.nontrivial = true;
            // c_n x^n - c_0 with |c_0/c_n| = rho^n
            let c0 = if *complex_field { c(phi.cos(), phi.sin()) * (cn.abs() * rho.powi(n as i32)) } else { c(cn.abs() * rho.powi(n as i32) * if *phi > 3.14159 { -1.0 } else { 1.0 }, 0.0) };
            let mut cf = vec![c(0.0, 0.0); n + 1];
            cf[n] = c(*cn, 0.0);
            cf[0] = -c0;
            let q = c0 / cn; // x^n = q
            let (r, th) = (q.norm().powf(1.0 / n as f64), q.arg());
            let truth: Vec<C64> = (0..n).map(|k| C64::from_polar(r, (th + 2.0 * std::f64::consts::PI * k as f64) / n as f64)).collect();
            let derivs: Vec<f64> = truth.iter().map(|z| n as f64 * cn.abs() * fac.norm() * z.norm().powi(n as i32 - 1)).collect();
            for z in cf.iter_mut() {
                *z *= fac;
            }
            let floor = noise_floor(&cf);
            let lo = if lead.exp < 0.0 { 10.0 * floor / fac.norm() } else { 10.0 * floor };
            let hi = lo.max(1e-6 * fac.norm().min(1.0));
            if lead.exp < 0.0 && lo > 1e-6 * fac.norm() {
                // scaled-down coefficients: the residual tolerance must stay <= 1e-6 relative to the scaling, the
                // Newton step tolerance above the rounding of the roots; no admissible value is left
                return o.discard("no admissible tolerance for the scaled-down polynomial");
            }
            let tol = lo * (hi / lo).powf(tol_exp.clamp(0.0, 1.0));
            o.set("tol", tol);
            if !(tol <= 0.5 * cf[n].norm()) {
                return o.discard("tolerance not below the scaled leading coefficient");
            }
            let res = roots_of(&cf, !*complex_field, tol);
            let res = match res {
                Ok(Ok(v)) => Ok(v),
                Ok(Err(e)) => return o.fail(format!("{cn} x^{n} - ({c0}): roots() returned Err({e})")),
                Err(c) => Err(c),
            };
            judge_roots(o, res, &truth, &derivs, tol, !*complex_field)
        }
        Case::Zeros { family, n, tight } => {
            let (family, n) = (*family % 3, *n);
            let fact: f64 = (1..=n).map(|k| k as f64).product();
            let (ztol, ptol) = if *tight { ((0.5 / fact).min(1e-10), (0.5 / fact).min(1e-10) * 1e-6) } else { (1e-10, 1e-14) };
            if *tight {
                o.label("zeros-tight-tolerance");
            }
            let name = ["legendre_zeros", "hermite_zeros", "laguerre_zeros"][family as usize];
            o.label(name);
            o.nontrivial = n >= 2;
            let res = guard(|| match family {
                0 => legendre_zeros::<f64>(n, ztol, ptol, N_MAX),
                1 => hermite_zeros::<f64>(n, ztol, ptol, N_MAX),
                _ => laguerre_zeros::<f64>(n, ztol, ptol, N_MAX),
            });
            let zs = match res {
                Ok(Ok(v)) => v,
                Ok(Err(e)) => return o.fail(format!("{name}({n}) returned Err({e})")),
                Err(Caught::Panic(m)) => return o.fail(format!("{name}({n}) panicked: {m}")),
                Err(Caught::Budget(_)) => return o.fail("budget"),
            };
            let reference = reference_zeros(family, n);
            if reference.len() != n as usize {
                return o.discard(format!("reference found {} zeros for n={n}", reference.len()));
            }
            o.set("zeros", &zs);
            if zs.len() != n as usize {
                return o.fail(format!("{name}({n}) returned {} values", zs.len()));
            }
            let mut sorted = zs.clone();
            if sorted.iter().any(|z| !z.is_finite()) {
                return o.fail("non-finite zero");
            }
            sorted.sort_by(|a, b| a.partial_cmp(b).unwrap());
            let mut worst: f64 = 0.0;
            for (z, w) in sorted.iter().zip(reference.iter()) {
                let e = (z - w).abs();
                worst = worst.max(e);
                if !(e <= 1e-8) {
                    return o.fail(format!("{name}({n}): zero {z:e} differs from the true zero {w:e} by {e:e} > 1e-8 (sorted one-to-one comparison)"));
                }
            }
            o.set("ratio_zero", worst / 1e-8);
            for w in sorted.windows(2) {
                if !(w[1] - w[0] > 1e-6) {
                    return o.fail("zeros are not pairwise distinct");
                }
            }
            let inside = match family {
                0 => sorted.iter().all(|z| *z > -1.0 && *z < 1.0),
                1 => true,
                _ => sorted.iter().all(|z| *z > 0.0),
            };
            if !inside {
                return o.fail("a zero lies outside the orthogonality interval");
            }
            o.pass()
        }
    }
}

fn strategy(_t: Tier) -> BoxedStrategy<Case> {
    let rs = prop_oneof![2 => real_roots_only(1, 10), 3 => real_rootset(1, 10), 3 => complex_rootset(1, 10)];
    let roots = (rs, any::<bool>(), prop_oneof![4 => gen::fl(0.0, 1.0), 1 => gen::fl(1.0, 2.0)], lead_scale(), prop_oneof![5 => Just(None), 1 => (gen::fl(-9.0, -2.0), any::<bool>()).prop_map(Some)]).prop_map(|(rs, complex_field, tol_exp, lead, tiny)| Case::Roots { rs, complex_field, tol_exp, lead, tiny });
    let sparse = (3usize..=10, (gen::logu(-1.0, 1.0), gen::sign()), gen::fl(0.6, 2.5), gen::fl(0.0, 6.28), any::<bool>(), gen::fl(0.0, 1.0), lead_scale())
        .prop_map(|(n, (m, s), rho, phi, complex_field, tol_exp, lead)| Case::Sparse { n, cn: m * s, rho, phi, complex_field, tol_exp, lead });
    prop_oneof![5 => roots, 1 => sparse].boxed()
}

pub fn run(opts: &Opts) -> i32 {
    let mut spec = Spec::new("C14", strategy, run_case);
    for n in 0..=16u32 {
        spec.enumerated.push(Case::Zeros { family: 0, n, tight: false });
        spec.enumerated.push(Case::Zeros { family: 1, n, tight: false });
        if n <= 12 {
            spec.enumerated.push(Case::Zeros { family: 2, n, tight: false });
        }
        if n <= 14 {
            spec.enumerated.push(Case::Zeros { family: 2, n, tight: true });
        }
    }
    for n in 3..=10usize {
        for complex_field in [false, true] {
            spec.enumerated.push(Case::Sparse { n, cn: 1.0, rho: 1.0, phi: 0.0, complex_field, tol_exp: 1.0, lead: LeadScale::default() });
        }
    }
    spec.cases = opts.tier.pick(400_000, 10_000_000);
    spec.exhaustive = Some("orthogonal-polynomial zeros: Legendre and Hermite n=0..16, Laguerre n=0..12 at tol 1e-10 and n=0..14 at tol min(1e-10, 0.5/n!)".into());
    spec.essential = vec![("sparse", 0.1), ("conjugate-pairs", 0.15), ("complex-coeffs", 0.2), ("real-field", 0.2), ("deg10", 0.03), ("lead-purely-imaginary", 0.05), ("lead-small", 0.05)];
    spec.rule = "generated: polynomials of degree 1-10 expanded in the harness from roots placed by grid construction (pairwise separation >= 0.3, |z| <= 3): real roots, conjugate pairs (real coefficients, also passed through the complex field) and arbitrary complex roots, leading coefficient +-10^[-1,1], all coefficients optionally times a common factor 10^[-3,3] and, in the complex field, times i, -1, -i or a random unit complex number (roots unchanged; polynomial tolerance min(1e-14, lead/1000); scaled-down cases keep the lower tolerance end of the unscaled polynomial because the same number is the Newton step tolerance of the polishing pass); sparse class c_n x^n - c_0 (n=3..10) set through set_coefficient; tolerance log-uniform from 10x the evaluation noise floor 4 n eps sum|c_k|3^k up to 1e-6 (above it when the floor is larger); n_max = 200. Oracle: Ok required, exactly deg results, greedy one-to-one matching within 2 tol max(1, 2/min|p'(r_i)|) + 1e-9, conjugation closure for real coefficients. Enumerated: zeros of Legendre/Hermite (n<=16) and Laguerre (n<=12; n<=14 with the root tolerance min(1e-10, 0.5/n!) below the leading coefficient 1/n!) against zeros bracketed and bisected on the three-term recurrences in the harness (1e-8). Non-trivial = degree >= 3, or sparse, or zeros with n >= 2. Distinct = distinct case JSON.".into();
    spec.max_shrink_iters = 3000;
    run_spec(spec, opts)
}

//! C07 — bracketing root finders return a root inside the bracket and terminate.

use bacon_sci::roots::{bisection, brent, itp};
use bverif::engine::*;
use proptest::prelude::*;
use serde::{Deserialize, Serialize};
use std::cell::RefCell;

#[derive(Clone, Debug, Serialize, Deserialize)]
pub struct Case {
    /// 0 bisection, 1 brent, 2 itp
    pub solver: u8,
    /// catalogue index
    pub func: u8,
    /// +1 increasing, -1 decreasing
    pub s: f64,
    pub r: f64,
    pub sigma: f64,
    /// catalogue parameters (extra roots for the 3-root cubic)
    pub p: (f64, f64),
    pub w1: f64,
    pub w2: f64,
    pub reversed: bool,
    pub tol: f64,
    /// itp: k1 * (b-a), k2, n0
    pub k1: f64,
    pub k2: f64,
    pub n0: f64,
    /// bisection: false = minimal cap (ceil(log2((b-a)/tol)) + 5), true = 200
    pub big_cap: bool,
    /// 0 valid; 1 negative tolerance; 2 k1 < 0; 3 k2 = 0.5; 4 k2 = 1; 5 k2 = 1+phi; 6 k2 = 3; 7 n0 < 0
    pub invalid: u8,
    /// bisection only: n_max is exactly the number of halvings the stopping rule needs (single root in the bracket,
    /// and the count unambiguous: log2((b-a)/(2 tau)) at least 0.05 away from an integer)
    #[serde(default)]
    pub exact_cap: bool,
}

const NFUNC: u8 = 12;

fn g(kind: u8, p: (f64, f64), u: f64) -> f64 {
    match kind {
        0 => u,
        1 => u * u * u,
        2 => u * (1.0 + u * u),
        3 => u.exp_m1(),
        4 => u.atan(),
        5 => u.sin(),
        6 => u.powi(5),
        7 => u.powi(7),
        8 => u.powi(9),
        9 => u.tanh(),
        10 => u * (u - p.0) * (u + p.1),
        _ => u.exp_m1() * (2.0 + (3.0 * u).cos()),
    }
}

/// sign-change roots (in u) inside [ulo, uhi]
fn roots_u(kind: u8, p: (f64, f64), ulo: f64, uhi: f64) -> Vec<f64> {
    match kind {
        5 => {
            let pi = std::f64::consts::PI;
            let k0 = (ulo / pi).floor() as i64 - 1;
            let k1 = (uhi / pi).ceil() as i64 + 1;
            (k0..=k1).map(|k| k as f64 * pi).collect()
        }
        10 => vec![0.0, p.0, -p.1],
        _ => vec![0.0],
    }
}

fn fname(kind: u8) -> &'static str {
    ["linear", "cubic", "u(1+u^2)", "expm1", "atan", "sin", "u^5", "u^7", "u^9", "tanh", "three-roots", "expm1*(2+cos3u)"][kind as usize % NFUNC as usize]
}

pub fn run_case(case: &Case) -> Outcome {
    let mut o = Obs::new();
    let kind = case.func % NFUNC;
    let (s, r, sigma, p) = (case.s, case.r, case.sigma, case.p);
    let f = move |x: f64| s * g(kind, p, (x - r) / sigma);
    let (lo, hi) = (r - case.w1, r + case.w2);
    let (a, b) = if case.reversed { (hi, lo) } else { (lo, hi) };
    let (flo, fhi) = (f(lo), f(hi));
    if flo == 0.0 || fhi == 0.0 || !flo.is_finite() || !fhi.is_finite() {
        return o.discard("bracket end is an exact root or not finite");
    }
    let same_sign = (flo > 0.0) == (fhi > 0.0);
    let solver = case.solver % 3;
    o.label(["bisection", "brent", "itp"][solver as usize]);
    o.label(fname(kind));
    o.label(if s < 0.0 { "decreasing" } else { "increasing" });
    if case.tol >= 0.1 * sigma {
        o.label("nonlinear-at-tolerance-scale");
    }
    let tol = if case.invalid == 1 { -case.tol } else { case.tol };
    let width = hi - lo;
    let nbis = ((width / case.tol).log2().ceil().max(0.0)) as usize;
    let mut n_max = if case.big_cap { 200 } else { nbis + 5 };
    if case.exact_cap && solver == 0 && case.invalid == 0 && !same_sign {
        // half-interval after k midpoint evaluations: w / 2^(k+1); Ok as soon as it is < tau = tol max(1, |x|)
        let slack0 = 4.0 * EPS * lo.abs().max(hi.abs());
        let rts: Vec<f64> = roots_u(kind, p, (lo - r) / sigma, (hi - r) / sigma).into_iter().map(|u| r + sigma * u).filter(|&z| z >= lo - slack0 && z <= hi + slack0).collect();
        if rts.len() == 1 {
            let tau = case.tol * rts[0].abs().max(1.0);
            let q = (width / (2.0 * tau)).log2();
            if (q - q.round()).abs() >= 0.05 && (rts[0].abs() - 1.0).abs() > 1e-3 {
                n_max = if q < 0.0 { 1 } else { q.floor() as usize + 1 };
                o.label("bisection-exact-cap");
            }
        }
    }
    let (k1, k2, n0) = {
        let mut k1 = case.k1 / width;
        let mut k2 = case.k2;
        let mut n0 = case.n0;
        match case.invalid {
            2 => k1 = -k1,
            3 => k2 = 0.5,
            4 => k2 = 1.0,
            5 => k2 = 1.0 + 0.5 * (1.0 + 5.0f64.sqrt()),
            6 => k2 = 3.0,
            7 => n0 = -1.0 - n0,
            _ => {}
        }
        (k1, k2, n0)
    };
    let invalid_applies = match (solver, case.invalid) {
        (_, 0) => false,
        (_, 1) => true,
        (2, _) => true,
        _ => false, // itp parameters are irrelevant for the other solvers
    };
    let budget: usize = match solver {
        0 => n_max + 3,
        1 => 2000,
        _ => {
            let nh = ((width / (2.0 * case.tol)).log2().ceil()).max(0.0);
            (2.0 * (nh + case.n0.abs() + 2.0)) as usize + 10
        }
    };
    let xs: RefCell<Vec<f64>> = RefCell::new(Vec::new());
    let fr = |x: f64| -> f64 {
        let mut v = xs.borrow_mut();
        v.push(x);
        if v.len() > budget {
            drop(v);
            budget_exceeded("root finder evaluation budget");
        }
        f(x)
    };
    let res = guard(|| match solver {
        0 => bisection((a, b), fr, tol, n_max),
        1 => brent((a, b), fr, tol),
        _ => itp((a, b), fr, k1, k2, n0, tol),
    });
    let evals = xs.borrow().clone();
    o.set("evaluations", evals.len());
    o.set("budget", budget);
    // (1) abscissae inside the closed interval (a few ulps of slack: the interval ends themselves are
    //     recomputed as r -/+ w in the harness)
    let slack = 4.0 * EPS * lo.abs().max(hi.abs());
    for (i, &x) in evals.iter().enumerate() {
        if !(x >= lo - slack && x <= hi + slack) {
            return o.fail(format!("evaluation #{i} at x = {x:e} lies outside the bracket [{lo:e}, {hi:e}]"));
        }
    }
    let res = match res {
        Ok(r) => r,
        Err(Caught::Budget(_)) => {
            o.label("budget");
            return o.fail(format!("did not terminate within {budget} evaluations (bracket width {width:e}, tol {:e})", case.tol));
        }
        Err(Caught::Panic(m)) => return o.fail(format!("panicked: {m}")),
    };
    o.set("result", format!("{res:?}"));
    // which verdict is required?
    let must_err = invalid_applies || same_sign || (solver == 0 && case.reversed);
    if invalid_applies {
        o.label("invalid-params");
    }
    if same_sign {
        o.label("same-sign");
    }
    if solver == 0 && case.reversed {
        o.label("bisection-reversed");
    }
    if must_err {
        o.nontrivial = true;
        return match res {
            Err(_) => o.pass(),
            Ok(x) => o.fail(format!("invalid input (invalid={}, same_sign={same_sign}, reversed={}) gave Ok({x:e}) instead of Err", case.invalid, case.reversed)),
        };
    }
    let x = match res {
        Ok(x) => x,
        Err(e) => {
            // valid input: all three must succeed (bisection has a cap of at least the bisection count + 5)
            return o.fail(format!("valid bracket gave Err({e})"));
        }
    };
    if !x.is_finite() {
        return o.fail(format!("Ok({x}) is not finite"));
    }
    if !(x >= lo - slack && x <= hi + slack) {
        return o.fail(format!("Ok({x:e}) lies outside the bracket [{lo:e}, {hi:e}]"));
    }
    let roots: Vec<f64> = roots_u(kind, p, (lo - r) / sigma, (hi - r) / sigma).into_iter().map(|u| r + sigma * u).filter(|&z| z >= lo - slack && z <= hi + slack).collect();
    let dist = roots.iter().map(|z| (x - z).abs()).fold(f64::INFINITY, f64::min);
    let tau = if solver == 0 { case.tol * x.abs().max(1.0) } else { case.tol };
    let allow = tau * (1.0 + 1e-9) + 16.0 * EPS * x.abs().max(1.0);
    let ok_root = dist <= allow;
    let ok_resid = solver == 1 && f(x).abs() < case.tol;
    o.set("ratio_dist", if ok_root { dist / allow } else { 0.0 });
    o.set("x", x);
    if roots.len() > 1 {
        o.label("multi-root");
    }
    if evals.iter().any(|&e| roots.iter().any(|&z| z == e)) {
        o.label("exact-hit");
    }
    if !(ok_root || ok_resid) {
        return o.fail(format!("Ok({x:e}) is {dist:e} away from the nearest sign change (allowed {allow:e}); f(x) = {:e}", f(x)));
    }
    o.nontrivial = s < 0.0 || !(lo <= 0.0 && hi >= 0.0) || roots.len() > 1 || evals.len() >= 10;
    o.pass()
}

fn strategy(_t: Tier) -> BoxedStrategy<Case> {
    let root = prop_oneof![
        3 => gen::fl(-10.0, 10.0),
        1 => Just(0.0),
        1 => (-40i32..=40).prop_map(|k| k as f64 * 0.25),
        // far from the origin: an absolute tolerance of 1e-12 is then a few units in the last place
        1 => (gen::logu(1.0, 3.48), gen::sign()).prop_map(|(m, s)| m * s),
    ];
    let width = || prop_oneof![3 => gen::logu(-3.0, 0.5), 1 => prop_oneof![Just(1.0), Just(0.5), Just(2.0), Just(0.25)]];
    let invalid = prop_oneof![12 => Just(0u8), 1 => Just(1u8), 1 => 2u8..=7];
    (
        (0u8..3, 0u8..NFUNC, gen::sign(), root, gen::logu(-1.0, 1.0), (gen::fl(0.5, 2.0), gen::fl(0.5, 2.0))),
        (width(), width(), any::<bool>(), gen::logu(-12.0, -2.0)),
        (gen::logu(-2.0, 1.0), gen::fl(1.01, 2.6), gen::fl(0.0, 3.0), any::<bool>(), invalid, prop_oneof![3 => Just(1.0), 1 => Just(1e-2), 1 => Just(1e-3)]),
    )
        .prop_map(|((solver, func, s, r, sigma, p), (w1, w2, reversed, tol), (k1, k2, n0, big_cap, invalid, steep))| {
            // oscillating / several-root functions: make brackets that span several roots common
            let multi = (func % NFUNC == 5 || func % NFUNC == 10) && big_cap;
            let (sigma, w1, w2) = if multi { (sigma.min(1.0 / sigma) * 0.8, 0.4 + 3.0 * w1.min(1.0), 0.4 + 3.0 * w2.min(1.0)) } else { (sigma, w1, w2) };
            // steep class: the same catalogue on a 100x / 1000x finer scale (strongly non-linear on the scale of a loose
            // tolerance); brackets at most 30 scale lengths wide so that the values stay finite
            // far roots: the tolerance stays representable (>= 8 eps |x|)
            let tol = if r.abs() > 10.0 { tol.max(8.0 * EPS * (r.abs() + 4.0)) } else { tol };
            let (sigma, w1, w2) = if steep < 1.0 { (sigma * steep, w1.min(30.0 * sigma * steep), w2.min(30.0 * sigma * steep)) } else { (sigma, w1, w2) };
            Case {
            solver,
            func,
            s,
            r,
            sigma,
            p,
            w1,
            w2,
            reversed,
            tol,
            k1,
            k2,
            n0,
            big_cap,
            invalid,
            exact_cap: !big_cap && steep >= 1.0 && (tol * 1e12).fract() < 0.5,
            }
        })
        .boxed()
}

pub fn run(opts: &Opts) -> i32 {
    let mut spec = Spec::new("C07", strategy, run_case);
    // deterministic: the crate's own doc/test examples in both orientations and directions
    for solver in 0..3u8 {
        for func in 0..NFUNC {
            for s in [1.0, -1.0] {
                for (r, w1, w2) in [(0.0, 1.0, 1.0), (1.5, 0.5, 2.0), (-7.25, 0.001, 3.0)] {
                    spec.enumerated.push(Case { solver, func, s, r, sigma: 1.0, p: (1.25, 0.75), w1, w2, reversed: false, tol: 1e-6, k1: 0.1, k2: 2.0, n0: 0.99, big_cap: false, invalid: 0, exact_cap: solver == 0 });
                }
            }
        }
    }
    spec.cases = opts.tier.pick(1_200_000, 30_000_000);
    spec.essential = vec![("decreasing", 0.3), ("bisection", 0.2), ("brent", 0.2), ("itp", 0.2), ("multi-root", 0.01), ("same-sign", 0.005), ("invalid-params", 0.03), ("bisection-reversed", 0.05), ("nonlinear-at-tolerance-scale", 0.03)];
    spec.rule = "generated: solver x catalogue function s*g((x-r)/sigma) (linear, cubic, u(1+u^2), expm1, atan, sin, u^5/7/9, tanh, three-root cubic, expm1*(2+cos 3u)) with s=+-1, root r in [-10,10] incl. 0 and dyadic values (one case in six |r| in 10^[1,3.48] with the tolerance raised to at least 8 eps |r|: an absolute tolerance of a few units in the last place), sigma 10^[-1,1] (times 1e-2 or 1e-3 in two fifths of the cases: functions that are strongly non-linear on the scale of a loose tolerance), bracket [r-w1, r+w2] with w 10^[-3,0.5] or dyadic, either order, tol 10^[-12,-2], ITP k1 10^[-2,1]/(b-a), k2 in (1.01,2.6), n0 in [0,3]; invalid class: negative tolerance, k1<0, k2 in {0.5,1,1+phi,3}, n0<0, same-sign ends (arises for sin/three-root brackets), reversed bisection bracket. Oracle: recorded abscissae inside the bracket, evaluation budget, Ok => inside bracket and within tol (relative to max(1,|x|) for bisection) of a sign-change root of the catalogue function (or |f|<tol for Brent), Ok required on valid input (bisection also with n_max exactly the number of halvings its stopping rule needs), Err on invalid. Non-trivial = decreasing, or bracket not containing 0, or several roots in the bracket, or >= 10 evaluations. Distinct = distinct case JSON.".into();
    spec.assumptions = vec!["catalogue root sets are analytic; sin roots k*pi rounded to f64 (covered by the 16 eps allowance)".into()];
    spec.max_discard_frac = 0.05;
    run_spec(spec, opts)
}

//! C09 — adaptive quadrature results are within tolerance of the true integral.
//!
//! The stopping rules of the routines are heuristics ("two consecutive rules agree", "the last
//! level difference squared"). A case is *admitted* only if a harness-side simulation of the
//! documented stopping rule, on independently computed nodes, (i) stops with margin 4 on both sides
//! of every decision and (ii) is itself within tol/2 of the closed-form integral ("reliability
//! certificate", DESIGN C09). On admitted cases the routine must return Ok within K tol.

use bacon_sci::integrate as bi;
use bverif::engine::*;
use bverif::refs::num::*;
use bverif::refs::quad::*;
use proptest::prelude::*;
use serde::{Deserialize, Serialize};
use std::cell::Cell;

#[derive(Clone, Debug, Serialize, Deserialize)]
pub struct Integrand {
    /// real polynomial part, ascending
    pub poly: Vec<f64>,
    /// ea * exp(a x)
    pub ea: f64,
    pub a: f64,
    /// sb * sin(b x + phi)
    pub sb: f64,
    pub b: f64,
    pub phi: f64,
    /// complex variant: + i * poly_im(x) + cz * exp(i cb x)
    pub complex: bool,
    pub poly_im: Vec<f64>,
    pub cz: (f64, f64),
    pub cb: f64,
}

impl Integrand {
    fn eval(&self, x: f64) -> C64 {
        let re = horner(&self.poly, x) + self.ea * (self.a * x).exp() + self.sb * (self.b * x + self.phi).sin();
        if self.complex {
            c(re, horner(&self.poly_im, x)) + c(self.cz.0, self.cz.1) * c((self.cb * x).cos(), (self.cb * x).sin())
        } else {
            c(re, 0.0)
        }
    }
    /// sum of |terms| on [l, r] (scale of the data)
    fn scale(&self, l: f64, r: f64) -> f64 {
        let m = l.abs().max(r.abs());
        let mut s = abs_scale(&self.poly, m) + self.ea.abs() * (self.a * l).exp().max((self.a * r).exp()) + self.sb.abs();
        if self.complex {
            s += abs_scale(&self.poly_im, m) + (self.cz.0 * self.cz.0 + self.cz.1 * self.cz.1).sqrt();
        }
        s
    }
    /// closed-form integral over [l, r], evaluated stably (Taylor shift to the midpoint, expm1, product formulas)
    fn exact(&self, l: f64, r: f64) -> C64 {
        let (m, h) = (0.5 * (l + r), 0.5 * (r - l));
        let pint = |cf: &[f64]| -> f64 {
            // q_j = P^(j)(m)/j!
            let mut acc = 0.0;
            let mut d = cf.to_vec();
            let mut fact = 1.0;
            let mut j = 0usize;
            loop {
                let qj = horner(&d, m) / fact;
                if j % 2 == 0 {
                    acc += 2.0 * qj * h.powi(j as i32 + 1) / (j as f64 + 1.0);
                }
                if d.len() <= 1 {
                    break;
                }
                d = deriv_coeffs(&d, 1);
                j += 1;
                fact *= j as f64;
            }
            acc
        };
        let mut re = pint(&self.poly);
        // ea * e^{a l} * expm1(a (r-l)) / a
        re += if self.a.abs() < 1e-12 { self.ea * (r - l) } else { self.ea * (self.a * l).exp() * (self.a * (r - l)).exp_m1() / self.a };
        // integral of sin(bx+phi) = (2/b) sin(b m + phi) sin(b h)
        re += if self.b.abs() < 1e-12 { self.sb * self.phi.sin() * (r - l) } else { self.sb * 2.0 / self.b * (self.b * m + self.phi).sin() * (self.b * h).sin() };
        if !self.complex {
            return c(re, 0.0);
        }
        let im = pint(&self.poly_im);
        // integral of e^{i cb x} = e^{i cb m} * 2 sin(cb h)/cb
        let osc = if self.cb.abs() < 1e-12 { c(r - l, 0.0) } else { c((self.cb * m).cos(), (self.cb * m).sin()) * (2.0 * (self.cb * h).sin() / self.cb) };
        c(re, im) + c(self.cz.0, self.cz.1) * osc
    }
    fn degree(&self) -> usize {
        let d = |v: &Vec<f64>| v.iter().rposition(|x| *x != 0.0).unwrap_or(0);
        d(&self.poly).max(if self.complex { d(&self.poly_im) } else { 0 })
    }
    fn is_poly(&self) -> bool {
        self.ea == 0.0 && self.sb == 0.0 && (!self.complex || (self.cz.0 == 0.0 && self.cz.1 == 0.0))
    }
}

#[derive(Clone, Debug, Serialize, Deserialize)]
pub struct Job {
    pub f: Integrand,
    pub l: f64,
    pub len: f64,
    /// position of the tolerance in its admissible log-range, 0 = smallest
    pub tol_pos: f64,
}

#[derive(Clone, Debug, Serialize, Deserialize)]
pub enum Case {
    /// 0 tanh-sinh `integrate`, 1 `integrate_gaussian`, 2 `integrate_simpson`
    Interval { routine: u8, job: Job },
    /// 0 hermite, 1 laguerre, 2 chebyshev, 3 chebyshev_second; integrand sum u_k x^k / sqrt(mu0 m_2k) + cc cos(b x)
    Weighted {
        family: u8,
        u: Vec<f64>,
        u_im: Vec<f64>,
        cc: f64,
        b: f64,
        tol_pos: f64,
        complex: bool,
        /// every amplitude is multiplied by 10^mag_exp (integrals much larger / smaller than 1, absolute tolerance)
        #[serde(default)]
        mag_exp: f64,
    },
    Romberg {
        n: usize,
        coef: Vec<f64>,
        coef_im: Vec<f64>,
        l: f64,
        len: f64,
        complex: bool,
        /// the polynomial is multiplied by (x-a)(x-b)(x-(a+b)/2): it vanishes on the three coarsest nodes, so the
        /// first two rows of the table are exactly zero (n >= 3 only; the degree stays <= 2n-1)
        #[serde(default)]
        vanish: bool,
    },
    SimpsonBatch { jobs: Vec<Job> },
    /// routine 0..=7 (integrate, simpson, fixed, gaussian, laguerre, hermite, chebyshev, chebyshev_second);
    /// kind 0 reversed interval, 1 empty interval, 2 negative tolerance
    Invalid { routine: u8, kind: u8, l: f64, len: f64, tol: f64 },
}

fn tol_range(lo_exp: f64, hi_exp: f64, floor: f64, pos: f64) -> f64 {
    let lo = 10f64.powf(lo_exp).max(floor);
    let hi = 10f64.powf(hi_exp).max(lo);
    lo * (hi / lo).powf(pos.clamp(0.0, 1.0))
}

/// Decisions of the simulated stopping rule must hold with this factor on either side of the tolerance.
/// Implementation and simulation differ only by rounding (<= ~1e-13 x data scale, while tol >= 2.2e-12 x
/// data scale), so a factor 1.5 leaves a 7x margin; a larger factor only raises the discard rate.
const MARGIN: f64 = 1.5;

#[derive(PartialEq)]
enum Decision {
    Stop,
    Continue,
    Ambiguous,
}

// ------------------------------------------------------------------------------------------------
// harness-side simulations of the documented stopping rules

/// Gauss families: returns (n*, A_n*) or None when not admitted
fn simulate_gauss(fam: Family, nrules: usize, g: &dyn Fn(f64) -> C64, tol_inner: f64) -> Result<(usize, Vec<C64>), &'static str> {
    let mut areas: Vec<C64> = vec![];
    let area = |n: usize| -> C64 {
        let rule = gauss_rule(fam, n);
        let mut a = c(0.0, 0.0);
        for i in 0..n {
            a += g(rule.0[i]) * rule.1[i];
        }
        a
    };
    for n in 1..=nrules {
        areas.push(area(n));
        let err = |n: usize| -> f64 {
            // n is 1-based; A_0 = 0
            if n == 1 {
                areas[0].norm()
            } else {
                (areas[n - 1] - areas[n - 2]).norm()
            }
        };
        let prev = if n == 1 { 1.0 + tol_inner } else { err(n - 1) };
        let cur = err(n);
        let d = if cur <= tol_inner / MARGIN && prev <= tol_inner / MARGIN {
            Decision::Stop
        } else if cur.max(prev) >= MARGIN * tol_inner {
            Decision::Continue
        } else {
            Decision::Ambiguous
        };
        match d {
            Decision::Stop => {
                for m in n + 1..=(n + 2).min(nrules) {
                    areas.push(area(m));
                }
                return Ok((n, areas));
            }
            Decision::Continue => {}
            Decision::Ambiguous => return Err("stopping decision within the margin of the tolerance"),
        }
    }
    Err("rule sequence exhausted (routine reports Err)")
}

/// tanh-sinh: returns the core value at the stopping level (unscaled), or the reason for non-admission
fn simulate_de(g: &dyn Fn(f64) -> C64, tol: f64) -> Result<(usize, C64), &'static str> {
    let mut integral = g(0.0) * std::f64::consts::PI;
    let mut cur = 0.0f64;
    let mut evals = 1usize;
    for l in 0..7 {
        let mut new = c(0.0, 0.0);
        for j in 0..DE_COUNTS[l] {
            let (w, x) = de_pair(l, j);
            new += (g(x) + g(-x)) * w;
        }
        evals += 2 * DE_COUNTS[l];
        let prev_ln = cur.ln();
        cur = (integral * 0.5 - new).norm();
        integral = integral * 0.5 + new;
        if evals <= 13 {
            continue;
        }
        if cur == 0.0 {
            return Ok((l, integral));
        }
        let r = cur.ln() / prev_ln;
        let (e_sq, e_lin) = (cur * cur, cur);
        let near_threshold = (r - 1.9).abs() < 0.05 || (r - 2.1).abs() < 0.05;
        let decide = |e: f64| {
            if e <= tol / MARGIN {
                Decision::Stop
            } else if e >= MARGIN * tol {
                Decision::Continue
            } else {
                Decision::Ambiguous
            }
        };
        let d = if near_threshold {
            let (a, b) = (decide(e_sq), decide(e_lin));
            if a == b {
                a
            } else {
                Decision::Ambiguous
            }
        } else if r > 1.9 && r < 2.1 {
            decide(e_sq)
        } else {
            decide(e_lin)
        };
        match d {
            Decision::Stop => return Ok((l, integral)),
            Decision::Continue => {}
            Decision::Ambiguous => return Err("stopping decision within the margin of the tolerance"),
        }
    }
    Err("levels exhausted (routine reports Err)")
}

/// textbook adaptive Simpson with the same 10 tol panel rule: (value, evaluations)
fn reference_simpson(g: &dyn Fn(f64) -> C64, l: f64, r: f64, tol: f64) -> (C64, usize) {
    let (a, e, _, _) = reference_simpson_levels(g, l, r, tol);
    (a, e)
}

/// ... also the deepest level at which a panel was accepted and the smallest relative distance of any panel decision
/// from its threshold
fn reference_simpson_levels(g: &dyn Fn(f64) -> C64, l: f64, r: f64, tol: f64) -> (C64, usize, usize, f64) {
    let (mut deepest, mut gap) = (1usize, f64::INFINITY);
    let h = 0.5 * (r - l);
    let (fa, fc, fb) = (g(l), g(l + h), g(r));
    let mut evals = 3usize;
    let mut area = c(0.0, 0.0);
    // (a, h, fa, fc, fb, S, tol)
    let mut stack = vec![(l, h, fa, fc, fb, (fa + fc * 4.0 + fb) * (h / 3.0), 10.0 * tol, 1usize)];
    while let Some((a, h, fa, fc, fb, s, t, lev)) = stack.pop() {
        let fd = g(a + 0.5 * h);
        let fe = g(a + 1.5 * h);
        evals += 2;
        let s1 = (fa + fd * 4.0 + fc) * (h / 6.0);
        let s2 = (fc + fe * 4.0 + fb) * (h / 6.0);
        let dn = (s1 + s2 - s).norm();
        gap = gap.min(((dn - t) / t).abs());
        if dn < t || lev >= 60 {
            deepest = deepest.max(lev);
            area += s1 + s2;
        } else {
            stack.push((a + h, 0.5 * h, fc, fe, fb, s2, 0.5 * t, lev + 1));
            stack.push((a, 0.5 * h, fa, fd, fc, s1, 0.5 * t, lev + 1));
        }
        if evals > 4_000_000 {
            break;
        }
    }
    (area, evals, deepest, gap)
}

const SIMPSON_DEPTH: usize = 60;
const CALL_BUDGET: usize = 3_000_000;

struct Counted<'a> {
    f: &'a Integrand,
    calls: Cell<usize>,
}

impl<'a> Counted<'a> {
    fn call(&self, x: f64) -> C64 {
        self.calls.set(self.calls.get() + 1);
        if self.calls.get() > CALL_BUDGET {
            budget_exceeded("integrand evaluations");
        }
        self.f.eval(x)
    }
}

fn run_simpson(job: &Job, tol: f64) -> (Result<Result<C64, String>, Caught>, usize) {
    run_simpson_depth(job, tol, SIMPSON_DEPTH)
}

fn run_simpson_depth(job: &Job, tol: f64, depth: usize) -> (Result<Result<C64, String>, Caught>, usize) {
    let cnt = Counted { f: &job.f, calls: Cell::new(0) };
    let (l, r) = (job.l, job.l + job.len);
    let res = if job.f.complex {
        guard(|| bi::integrate_simpson::<C64, _>(l, r, |x| cnt.call(x), tol, depth))
    } else {
        guard(|| bi::integrate_simpson::<f64, _>(l, r, |x| cnt.call(x).re, tol, depth).map(|v| c(v, 0.0)))
    };
    (res, cnt.calls.get())
}

fn job_tol(job: &Job, lo_exp: f64) -> f64 {
    let (l, r) = (job.l, job.l + job.len);
    let floor = 1e4 * EPS * job.len * job.f.scale(l, r);
    tol_range(lo_exp, -3.0, floor, job.tol_pos)
}

fn interval_labels(o: &mut Obs, job: &Job) {
    let f = &job.f;
    if f.complex {
        o.label("complex");
    }
    if !f.is_poly() {
        o.label("non-polynomial");
    }
    if !(job.l <= 0.0 && job.l + job.len >= 0.0) {
        o.label("interval-off-zero");
    }
    o.nontrivial = !f.is_poly() || f.degree() >= 4 || f.complex || !(job.l <= 0.0 && job.l + job.len >= 0.0);
}

fn run_interval(routine: u8, job: &Job, mut o: Obs) -> Outcome {
    let f = &job.f;
    let (l, r) = (job.l, job.l + job.len);
    let exact = f.exact(l, r);
    let floor = 64.0 * EPS * job.len * f.scale(l, r);
    interval_labels(&mut o, job);
    let (scale, shift) = (0.5 * (r - l), 0.5 * (r + l));
    let g = |t: f64| f.eval(scale * t + shift);
    match routine % 3 {
        0 => {
            o.label("tanh-sinh");
            let tol = job_tol(job, -11.0);
            o.set("tol", tol);
            let high = tol >= 1e-8;
            o.label(if high { "tanh-sinh-proportional" } else { "tanh-sinh-power-law" });
            let bound = if high { 2.0 * tol } else { 4.0 * tol.sqrt() } + floor;
            let what = if high { "integrate_tanhsinh_proportional" } else { "integrate_tanhsinh_powerlaw" };
            let (lev, sim) = match simulate_de(&g, tol) {
                Ok(v) => v,
                Err(why) => return o.discard(format!("tanh-sinh not admitted: {why}")),
            };
            let sim_err = (sim * scale - exact).norm();
            if !(sim_err <= if high { tol / 2.0 } else { tol.sqrt() }) {
                return o.discard("tanh-sinh not admitted: simulated rule stops with an error above tol/2 (estimator unreliable)");
            }
            o.set("level", lev);
            let res = if f.complex { guard(|| bi::integrate::<C64, _>(l, r, |x| f.eval(x), tol)) } else { guard(|| bi::integrate::<f64, _>(l, r, |x| f.eval(x).re, tol).map(|v| c(v, 0.0))) };
            judge(o, res, exact, bound, what)
        }
        1 => {
            o.label("gauss-legendre");
            let tol = job_tol(job, -11.0);
            o.set("tol", tol);
            let inner = 0.25 * tol / scale;
            let (nstar, areas) = match simulate_gauss(Family::Legendre, 12, &g, inner) {
                Ok(v) => v,
                Err(why) => return o.discard(format!("gauss-legendre not admitted: {why}")),
            };
            for k in 0..3 {
                if let Some(a) = areas.get(nstar - 1 + k) {
                    if !((a * scale - exact).norm() <= tol / 2.0) {
                        return o.discard("gauss-legendre not admitted: agreeing rules are not within tol/2 of the integral");
                    }
                }
            }
            o.set("n_star", nstar);
            let res = if f.complex { guard(|| bi::integrate_gaussian::<C64, _>(l, r, |x| f.eval(x), tol)) } else { guard(|| bi::integrate_gaussian::<f64, _>(l, r, |x| f.eval(x).re, tol).map(|v| c(v, 0.0))) };
            judge(o, res, exact, 2.0 * tol + floor, "integrate_gaussian")
        }
        _ => {
            o.label("simpson");
            let tol = job_tol(job, -11.0);
            o.set("tol", tol);
            let hard = f.is_poly() && f.degree() <= 5;
            o.label(if hard { "simpson-hard-bound" } else { "simpson-smooth" });
            let (res, calls) = run_simpson(job, tol);
            let ge = |x: f64| f.eval(x);
            let (_, ref_calls) = reference_simpson(&ge, l, r, tol);
            o.set("calls", calls);
            o.set("reference_calls", ref_calls);
            if let Err(Caught::Budget(_)) = res {
                return o.fail(format!("adaptive Simpson exceeded {CALL_BUDGET} evaluations (reference needs {ref_calls})"));
            }
            if calls > 8 * ref_calls + 32 {
                return o.fail(format!("adaptive Simpson used {calls} evaluations, the textbook algorithm with the same panel rule needs {ref_calls}"));
            }
            o.set("ratio_work", calls as f64 / (8 * ref_calls + 32) as f64);
            if hard {
                // the depth cap: with every panel decision of the textbook recursion clear of its threshold, a cap equal to
                // the deepest accepted level must still give Ok, and a cap one level short must give Err - or an Ok that
                // meets the bound (never a quietly relaxed result)
                let (_, _, deepest, gap) = reference_simpson_levels(&ge, l, r, tol);
                if gap > 1e-6 && deepest < SIMPSON_DEPTH {
                    o.label("simpson-depth-cap");
                    let (at, _) = run_simpson_depth(job, tol, deepest);
                    match at {
                        Ok(Ok(v)) if (v - exact).norm() <= tol + floor => {}
                        Ok(Ok(v)) => return o.fail(format!("integrate_simpson with n_max = {deepest} (the deepest level the recursion needs) returned {v}, {:e} from the exact integral (allowed {:e})", (v - exact).norm(), tol + floor)),
                        Ok(Err(e)) => return o.fail(format!("integrate_simpson with n_max = {deepest}, the deepest level the textbook recursion accepts a panel at, returned Err({e})")),
                        Err(c) => return o.fail(format!("{c:?}")),
                    }
                    if deepest >= 2 {
                        let (short, _) = run_simpson_depth(job, tol, deepest - 1);
                        match short {
                            Ok(Err(_)) => {
                                o.label("simpson-depth-cap-err");
                            }
                            Ok(Ok(v)) if (v - exact).norm() <= tol + floor => {}
                            Ok(Ok(v)) => return o.fail(format!("integrate_simpson with n_max = {} (one level short of what the tolerance needs) returned Ok({v}), {:e} from the exact integral (allowed {:e})", deepest - 1, (v - exact).norm(), tol + floor)),
                            Err(c) => return o.fail(format!("{c:?}")),
                        }
                    }
                }
                // degree <= 5: the accepted-panel error is exactly |S2-S1|/15 < (2/3) tol_i, summing to < tol
                judge(o, res, exact, tol + floor, "integrate_simpson_hard")
            } else {
                // smooth family: the property claims termination and work only (the estimator can be
                // fooled by a sign change of the fourth derivative: observed error 160 tol on
                // e^{0.94x}+1.84 sin(1.27x+1.86) over [-1.16,2.54] with the unchanged textbook algorithm)
                match res {
                    Ok(Ok(v)) if v.re.is_finite() && v.im.is_finite() => {
                        o.set("err_over_tol", (v - exact).norm() / tol);
                        o.pass()
                    }
                    Ok(Ok(_)) => o.fail("integrate_simpson returned a non-finite value"),
                    Ok(Err(e)) => o.fail(format!("integrate_simpson returned Err({e}) on a smooth integrand (depth limit {SIMPSON_DEPTH})")),
                    Err(c) => o.fail(format!("{c:?}")),
                }
            }
        }
    }
}

fn judge(mut o: Obs, res: Result<Result<C64, String>, Caught>, exact: C64, bound: f64, what: &str) -> Outcome {
    match res {
        Err(Caught::Panic(m)) => o.fail(format!("{what} panicked: {m}")),
        Err(Caught::Budget(w)) => o.fail(format!("{what}: {w} budget exhausted")),
        Ok(Err(e)) => o.fail(format!("{what} returned Err({e}) on an admitted integrand")),
        Ok(Ok(v)) => {
            if !(v.re.is_finite() && v.im.is_finite()) {
                return o.fail(format!("{what} returned a non-finite value"));
            }
            let err = (v - exact).norm();
            o.set("value", (v.re, v.im));
            o.set("exact", (exact.re, exact.im));
            o.set(&format!("ratio_err_{}", what.split_whitespace().next().unwrap_or("x")), err / bound);
            if err <= bound {
                o.pass()
            } else {
                o.fail(format!("{what} = {v:e}, true integral {exact:e}: |diff| {err:e} > {bound:e}"))
            }
        }
    }
}

fn bessel_j0(b: f64) -> f64 {
    let (mut term, mut s) = (1.0, 1.0);
    for m in 1..40 {
        term *= -(b / 2.0).powi(2) / (m as f64 * m as f64);
        s += term;
    }
    s
}

fn bessel_j1_over_x(b: f64) -> f64 {
    // J1(b)/b = 1/2 sum (-1)^m (b/2)^{2m} / (m! (m+1)!)
    let (mut term, mut s) = (1.0, 1.0);
    for m in 1..40 {
        term *= -(b / 2.0).powi(2) / (m as f64 * (m as f64 + 1.0));
        s += term;
    }
    0.5 * s
}

fn run_weighted(case: &Case, mut o: Obs) -> Outcome {
    let Case::Weighted { family, u, u_im, cc, b, tol_pos, complex, mag_exp } = case else { unreachable!() };
    let mag = 10f64.powf(*mag_exp);
    let (u, u_im, cc) = (&u.iter().map(|v| v * mag).collect::<Vec<f64>>(), &u_im.iter().map(|v| v * mag).collect::<Vec<f64>>(), &(cc * mag));
    if *mag_exp != 0.0 {
        o.label("weighted-magnitude");
    }
    let fam = [Family::Hermite, Family::Laguerre, Family::Chebyshev1, Family::Chebyshev2][*family as usize % 4];
    o.label(format!("weighted-{}", fam.name()));
    let (nrules, dmax) = match fam {
        Family::Hermite => (27, 44),
        Family::Laguerre => (12, 19),
        _ => (100, 48),
    };
    let mu0 = fam.mu0();
    let coef = |uu: &Vec<f64>| -> Vec<f64> { uu.iter().take(dmax + 1).enumerate().map(|(k, v)| v / (mu0 * fam.moment(2 * k)).sqrt()).collect() };
    let cr = coef(u);
    let ci = if *complex { coef(u_im) } else { vec![0.0] };
    let b = if fam == Family::Laguerre { *b * 0.5 } else { *b };
    let cc = *cc;
    let f = move |x: f64| -> C64 { c(horner(&cr, x) + cc * (b * x).cos(), horner(&ci, x)) };
    let cr2 = coef(u);
    let ci2 = if *complex { coef(u_im) } else { vec![0.0] };
    let cos_int = match fam {
        Family::Hermite => std::f64::consts::PI.sqrt() * (-b * b / 4.0).exp(),
        Family::Laguerre => 1.0 / (1.0 + b * b),
        Family::Chebyshev1 => std::f64::consts::PI * bessel_j0(b),
        _ => std::f64::consts::PI * bessel_j1_over_x(b),
    };
    let exact = c(cr2.iter().enumerate().map(|(k, v)| v * fam.moment(k)).sum::<f64>() + cc * cos_int, ci2.iter().enumerate().map(|(k, v)| v * fam.moment(k)).sum::<f64>());
    let s = u.iter().take(dmax + 1).map(|v| v.abs()).sum::<f64>() + if *complex { u_im.iter().take(dmax + 1).map(|v| v.abs()).sum::<f64>() } else { 0.0 } + cc.abs() * mu0;
    let tol = tol_range(-11.0, -3.0, 1e4 * EPS * s, *tol_pos);
    let floor = 64.0 * EPS * s * 8.0;
    o.set("tol", tol);
    if *complex {
        o.label("complex");
    }
    if cc != 0.0 {
        o.label("non-polynomial");
    }
    o.nontrivial = cc != 0.0 || u.len() >= 5 || *complex;
    let sim = simulate_gauss(fam, nrules, &f, tol);
    let res = if *complex {
        guard(|| match fam {
            Family::Hermite => bi::integrate_hermite::<C64, _>(&f, tol),
            Family::Laguerre => bi::integrate_laguerre::<C64, _>(&f, tol),
            Family::Chebyshev1 => bi::integrate_chebyshev::<C64, _>(&f, tol),
            _ => bi::integrate_chebyshev_second::<C64, _>(&f, tol),
        })
    } else {
        let fr = |x: f64| f(x).re;
        guard(|| {
            match fam {
                Family::Hermite => bi::integrate_hermite::<f64, _>(fr, tol),
                Family::Laguerre => bi::integrate_laguerre::<f64, _>(fr, tol),
                Family::Chebyshev1 => bi::integrate_chebyshev::<f64, _>(fr, tol),
                _ => bi::integrate_chebyshev_second::<f64, _>(fr, tol),
            }
            .map(|v| c(v, 0.0))
        })
    };
    let (nstar, areas) = match sim {
        Ok(v) => v,
        Err(why) => {
            // not admitted. One sub-class is still decidable: the documented rule, simulated with the margin, does not
            // stop at any rule of the sequence (the routine must report Err) - an Ok that is off by more than the bound
            // cannot then be blamed on a fooled estimator.
            if why.contains("exhausted") {
                if let Ok(Ok(v)) = &res {
                    let err = (v - exact).norm();
                    if !(err <= 2.0 * tol + floor) {
                        return o.fail(format!(
                            "integrate_{} returned Ok({v:e}), {err:e} from the true integral {exact:e} (allowed {:e}), although the documented stopping rule does not stop at any rule of the sequence",
                            fam.name(),
                            2.0 * tol + floor
                        ));
                    }
                }
            }
            return o.discard(format!("weighted rule not admitted: {why}"));
        }
    };
    for k in 0..3 {
        if let Some(a) = areas.get(nstar - 1 + k) {
            if !((a - exact).norm() <= tol / 2.0) {
                return o.discard("weighted rule not admitted: agreeing rules are not within tol/2 of the integral");
            }
        }
    }
    o.set("n_star", nstar);
    judge(o, res, exact, 2.0 * tol + floor, &format!("integrate_{}", fam.name()))
}

fn run_romberg(case: &Case, mut o: Obs) -> Outcome {
    let Case::Romberg { n, coef, coef_im, l, len, complex, vanish } = case else { unreachable!() };
    o.label("romberg");
    let n = (*n).clamp(1, 10);
    let deg = 2 * n - 1;
    let vanish = *vanish && n >= 3;
    // vanishing class: q(x) (x-a)(x-b)(x-m) with deg q = deg - 3
    let times_cubic = |q: Vec<f64>| -> Vec<f64> {
        let (a, b, m) = (*l, *l + *len, *l + 0.5 * *len);
        let cubic = [-a * b * m, a * b + a * m + b * m, -(a + b + m), 1.0];
        let mut out = vec![0.0; q.len() + 3];
        for (i, qi) in q.iter().enumerate() {
            for (j, cj) in cubic.iter().enumerate() {
                out[i + j] += qi * cj;
            }
        }
        out
    };
    let take = if vanish { deg + 1 - 3 } else { deg + 1 };
    let mut cr: Vec<f64> = coef.iter().take(take).cloned().collect();
    let mut ci: Vec<f64> = if *complex { coef_im.iter().take(take).cloned().collect() } else { vec![0.0] };
    let (qr, qi) = (cr.clone(), ci.clone());
    if vanish {
        o.label("romberg-vanishing-on-coarse-nodes");
        cr = times_cubic(cr);
        if *complex {
            ci = times_cubic(ci);
        }
    }
    let f = Integrand { poly: cr, ea: 0.0, a: 0.0, sb: 0.0, b: 0.0, phi: 0.0, complex: *complex, poly_im: ci, cz: (0.0, 0.0), cb: 0.0 };
    let (l, r) = (*l, *l + *len);
    let exact = f.exact(l, r);
    let bound = 2048.0 * EPS * len * f.scale(l, r);
    o.set("n", n);
    o.nontrivial = n >= 3;
    if *complex {
        o.label("complex");
    }
    // the vanishing class is evaluated in factored form, so that the zeros at a, b and the midpoint are exact
    let m = l + 0.5 * *len;
    let ev = |x: f64| -> C64 {
        if vanish {
            let w = (x - l) * (x - r) * (x - m);
            c(horner(&qr, x) * w, if *complex { horner(&qi, x) * w } else { 0.0 })
        } else {
            f.eval(x)
        }
    };
    let res = if *complex { guard(|| bi::integrate_fixed::<C64, _>(l, r, |x| ev(x), n)) } else { guard(|| bi::integrate_fixed::<f64, _>(l, r, |x| ev(x).re, n).map(|v| c(v, 0.0))) };
    judge(o, res, exact, bound, "integrate_fixed (Romberg)")
}

fn run_batch(jobs: &[Job], mut o: Obs) -> Outcome {
    o.label("simpson-batch");
    o.nontrivial = true;
    let (mut tot, mut tot_ref) = (0usize, 0usize);
    for job in jobs {
        let tol = job_tol(job, -11.0);
        let (res, calls) = run_simpson(job, tol);
        if let Err(Caught::Budget(_)) = res {
            return o.fail("adaptive Simpson exceeded the evaluation budget");
        }
        let ge = |x: f64| job.f.eval(x);
        let (_, rc) = reference_simpson(&ge, job.l, job.l + job.len, tol);
        tot += calls;
        tot_ref += rc;
    }
    o.set("calls", tot);
    o.set("reference_calls", tot_ref);
    o.set("ratio_batch_work", tot as f64 / (2.0 * tot_ref as f64));
    if tot > 2 * tot_ref {
        return o.fail(format!("over {} integrals adaptive Simpson spent {tot} evaluations, the textbook algorithm {tot_ref} (> 2x)", jobs.len()));
    }
    o.pass()
}

fn run_invalid(case: &Case, mut o: Obs) -> Outcome {
    let Case::Invalid { routine, kind, l, len, tol } = case else { unreachable!() };
    o.label("invalid");
    o.label(format!("invalid-routine{}", routine % 8));
    o.nontrivial = true;
    let (l, len, tol) = (*l, *len, *tol);
    // kind: 0 reversed, 1 empty, 2 negative tolerance
    let takes_interval = matches!(routine % 8, 0 | 1 | 2 | 3);
    let takes_tol = routine % 8 != 2;
    let kind = match (kind % 3, takes_interval, takes_tol) {
        (2, _, false) => 0,
        (0 | 1, false, _) => 2,
        (k, _, _) => k,
    };
    let (a, b) = match kind {
        0 => (l + len, l),
        1 => (l, l),
        _ => (l, l + len),
    };
    let t = if kind == 2 { -tol } else { tol };
    let f = |x: f64| 1.0 + x * x;
    let res = guard(|| match routine % 8 {
        0 => bi::integrate::<f64, _>(a, b, f, t),
        1 => bi::integrate_simpson::<f64, _>(a, b, f, t, 40),
        2 => bi::integrate_fixed::<f64, _>(a, b, f, 5),
        3 => bi::integrate_gaussian::<f64, _>(a, b, f, t),
        4 => bi::integrate_laguerre::<f64, _>(f, t),
        5 => bi::integrate_hermite::<f64, _>(f, t),
        6 => bi::integrate_chebyshev::<f64, _>(f, t),
        _ => bi::integrate_chebyshev_second::<f64, _>(f, t),
    });
    o.set("kind", kind);
    match res {
        Ok(Err(_)) => o.pass(),
        Ok(Ok(v)) => o.fail(format!("routine {} with {} returned Ok({v:e}) instead of Err", routine % 8, ["a reversed interval", "an empty interval", "a negative tolerance"][kind as usize])),
        Err(c) => o.fail(format!("{c:?}")),
    }
}

pub fn run_case(case: &Case) -> Outcome {
    let o = Obs::new();
    match case {
        Case::Interval { routine, job } => run_interval(*routine, job, o),
        Case::Weighted { .. } => run_weighted(case, o),
        Case::Romberg { .. } => run_romberg(case, o),
        Case::SimpsonBatch { jobs } => run_batch(jobs, o),
        Case::Invalid { .. } => run_invalid(case, o),
    }
}

fn integrand() -> BoxedStrategy<Integrand> {
    let poly = || (0usize..=6).prop_flat_map(|d| proptest::collection::vec(gen::fl(-1.0, 1.0), d + 1));
    let amp = || prop_oneof![2 => Just(0.0), 3 => gen::fl(-2.0, 2.0)];
    let rate = |m: f64| (gen::fl(0.05, m), gen::sign()).prop_map(|(v, s)| v * s);
    // overall magnitude: none, or 10^[-3, 1] on every amplitude (stopping heuristics that look at the logarithm of a
    // level difference behave differently for small integrands)
    let mag = prop_oneof![2 => Just(0.0), 2 => gen::fl(-3.0, 1.0)];
    (poly(), amp(), rate(1.5), amp(), rate(2.0), gen::fl(0.0, 6.28), prop_oneof![3 => Just(false), 1 => Just(true)], poly(), (amp(), amp()), (rate(2.0), mag))
        .prop_map(|(poly, ea, a, sb, b, phi, complex, poly_im, cz, (cb, mag))| {
            let m = 10f64.powf(mag);
            let sc = |v: Vec<f64>| -> Vec<f64> { v.into_iter().map(|x| x * m).collect() };
            Integrand { poly: sc(poly), ea: ea * m, a, sb: sb * m, b, phi, complex, poly_im: sc(poly_im), cz: (cz.0 * m, cz.1 * m), cb }
        })
        .boxed()
}

fn job() -> BoxedStrategy<Job> {
    (integrand(), gen::fl(0.05, 4.0), gen::fl(0.0, 1.0), gen::fl(0.0, 1.0))
        .prop_map(|(f, len, pos, tol_pos)| {
            // anywhere in [-5, 5]
            let l = -5.0 + (10.0 - len) * pos;
            Job { f, l, len, tol_pos }
        })
        .boxed()
}

fn strategy(t: Tier) -> BoxedStrategy<Case> {
    let interval = (0u8..3, job()).prop_map(|(routine, job)| Case::Interval { routine, job });
    let uvec = || prop_oneof![3 => 0usize..=30, 1 => 31usize..=48].prop_flat_map(|d| proptest::collection::vec(gen::fl(-1.0, 1.0), d + 1));
    let weighted = (0u8..4, uvec(), uvec(), prop_oneof![1 => Just(0.0), 2 => gen::fl(-2.0, 2.0)], (gen::fl(-1.0, 1.0), prop_oneof![2 => Just(0.0), 1 => gen::fl(-3.0, 0.0), 1 => gen::fl(0.0, 3.0)]), gen::fl(0.0, 1.0), prop_oneof![3 => Just(false), 1 => Just(true)])
        .prop_map(|(family, u, u_im, cc, (b, mag_exp), tol_pos, complex)| Case::Weighted { family, u, u_im, cc, b, tol_pos, complex, mag_exp });
    let romberg = (1usize..=10, proptest::collection::vec(gen::fl(-1.0, 1.0), 20), proptest::collection::vec(gen::fl(-1.0, 1.0), 20), gen::fl(0.05, 4.0), gen::fl(0.0, 1.0), (any::<bool>(), prop_oneof![3 => Just(false), 1 => Just(true)]))
        .prop_map(|(n, coef, coef_im, len, pos, (complex, vanish))| Case::Romberg { n, coef, coef_im, l: -5.0 + (10.0 - len) * pos, len, complex, vanish });
    let nb = t.pick(20, 40);
    let batch = proptest::collection::vec(job(), nb).prop_map(|jobs| Case::SimpsonBatch { jobs });
    let invalid = (0u8..8, 0u8..3, gen::fl(-5.0, 4.0), gen::fl(0.05, 1.0), gen::logu(-8.0, -3.0)).prop_map(|(routine, kind, l, len, tol)| Case::Invalid { routine, kind, l, len, tol });
    prop_oneof![10 => interval, 6 => weighted, 2 => romberg, 1 => batch, 2 => invalid].boxed()
}

pub fn run(opts: &Opts) -> i32 {
    let mut spec = Spec::new("C09", strategy, run_case);
    for routine in 0..8u8 {
        for kind in 0..3u8 {
            spec.enumerated.push(Case::Invalid { routine, kind, l: -1.0, len: 2.0, tol: 1e-6 });
            spec.enumerated.push(Case::Invalid { routine, kind, l: 2.5, len: 0.5, tol: 1e-4 });
        }
    }
    spec.cases = opts.tier.pick(300_000, 6_000_000);
    spec.essential = vec![
        ("tanh-sinh", 0.1),
        ("gauss-legendre", 0.1),
        ("simpson", 0.1),
        ("simpson-hard-bound", 0.01),
        ("weighted-hermite", 0.03),
        ("weighted-laguerre", 0.03),
        ("weighted-chebyshev", 0.03),
        ("weighted-chebyshev_second", 0.03),
        ("romberg", 0.05),
        ("simpson-batch", 0.02),
        ("invalid", 0.05),
        ("complex", 0.1),
    ];
    spec.max_discard_frac = 0.2;
    spec.rule = "generated: integrands P_d(x)+A e^{ax}+B sin(bx+phi) (d<=6, |a|<=1.5, |b|<=2; complex variant + i Q(x) + C e^{i b x}; coefficients in [-1,1], amplitudes in [-2,2], all optionally times a common magnitude 10^[-3,1]) on intervals of length 0.05..4 anywhere in [-5,5], tolerance log-uniform from max(1e-11, 1e4 eps (b-a) sum|terms|) to 1e-3 for tanh-sinh / Gauss-Legendre / adaptive Simpson; weighted rules on sum u_k x^k/sqrt(mu0 m_2k) + C cos(bx) (degree <= 44 Hermite, 19 Laguerre, 48 Chebyshev: up to what the rule sequences integrate exactly; |b|<=1, 0.5 for Laguerre) against exact moments and closed forms, amplitudes optionally times 10^[-3,3] (integrals far from unit size under an absolute tolerance); Romberg n=1..10 on polynomials of degree <= 2n-1 (a quarter of them multiples of (x-a)(x-b)(x-(a+b)/2): zero on the three coarsest nodes); batches of 20/40 Simpson integrals for the work bound; invalid class (reversed/empty interval, negative tolerance) for all eight routines. A case is admitted only if the harness's simulation of the documented stopping rule on independently computed nodes decides every step with a factor-1.5 margin and is itself within tol/2 of the closed-form integral; non-admitted cases are counted as discards (< 20%). Oracle: Ok required; |v-I| <= 2 tol + 64 eps (b-a) sum|terms| (tanh-sinh below 1e-8: 4 sqrt(tol); Simpson: tol on polynomials of degree <= 5 (no accuracy claim on the smooth family) - also with the depth cap equal to the deepest level the textbook recursion needs (Ok required) and one level short (Err, or an Ok within the bound), evaluation count <= 8x reference + 32 per case and <= 2x per batch; Romberg: 2048 eps (b-a) sum|c_k||x|^k). Non-trivial = non-polynomial, degree >= 4, complex or interval not containing 0; weighted: non-polynomial or >= 5 coefficients or complex; batches; invalid. Distinct = distinct case JSON.".into();
    spec.assumptions = vec!["closed-form integrals evaluated by Taylor shift / expm1 / product formulas (error << floor)".into(), "independent Gauss rules by Golub-Welsch (refs::quad), validated against the tables by C10".into()];
    spec.max_shrink_iters = 1500;
    run_spec(spec, opts)
}

#[path = "/repo/src/integrate/tables.rs"]
#[allow(dead_code, clippy::all)]
pub mod tables;

mod c09;
mod c10;

fn main() {
    let opts = bverif::engine::parse_args();
    let code = match opts.prop.as_str() {
        "C09" => c09::run(&opts),
        "C10" => c10::run(&opts),
        p => {
            eprintln!("quad: unknown property {p}");
            2
        }
    };
    std::process::exit(code);
}

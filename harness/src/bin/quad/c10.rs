//! C10 — every tabulated quadrature rule has its full degree of exactness (exhaustive over the tables
//! of the working tree, expanded exactly as the integrators consume them).

use crate::tables;
use bacon_sci::integrate as bi;
use bverif::engine::*;
use bverif::refs::quad::*;
use proptest::prelude::*;
use serde::{Deserialize, Serialize};

#[derive(Clone, Debug, Serialize, Deserialize)]
pub enum Case {
    /// structural checks + exactness on every monomial of degree <= 2n-1 + independent Golub-Welsch comparison
    Row { family: usize, row: usize },
    /// random polynomial of degree <= 2n-1 in the orthonormal basis, coefficients derived from `seed`
    RandPoly { family: usize, row: usize, seed: u64 },
    /// tanh-sinh pair
    De { level: usize, j: usize },
    /// row counts of every table
    Shape,
    /// integrate_* on the monomial x^k against the exact moment
    EndToEnd { family: usize, k: usize },
    /// the rules as the public integrator consumes them: a never-converging instrumented integrand records the
    /// abscissae of every evaluation - the rule at position n must be asked for exactly the n nodes of the table row
    ConsumedNodes { family: usize },
    /// the weight the integrator applies to every evaluation of the rule at position `row + 1` (>= 4), read out by an
    /// integrand that is 1 at one evaluation and 0 elsewhere: must be the table weight of that node, bit for bit
    ConsumedWeights { family: usize, row: usize },
    /// the value the integrator computes with the rule at position `row + 1` (>= 4) for a random polynomial of degree
    /// <= 2n-1 (orthonormal basis, signed coefficients): earlier rules see constants that never agree, the two rules
    /// before see zero, the tolerance exceeds the value - what comes back is the rule applied to the polynomial
    ConsumedPoly { family: usize, row: usize, seed: u64 },
    /// the tanh-sinh table as `integrate` consumes it on [-1,1]: an instrumented integrand whose level values never
    /// settle records every abscissa - the centre, then every pair +x, -x of every level, whatever the tolerance
    ConsumedDeNodes { tol_exp: i32 },
    /// the Gauss-Legendre rules as consumed on an interval only `ulps` units in the last place wide at `mid`: the mapped
    /// nodes coincide, but every one of the n nodes of rule n is still evaluated and weighted (a constant integrates to
    /// constant x width, n(n+1)/2 evaluations over the whole sequence)
    NarrowLegendre { mid: f64, ulps: u32 },
    /// one tanh-sinh pair as consumed: the integrand is `value` at the single evaluation (level, index, side) and 0
    /// elsewhere; the result must be what the documented loop gives with the table weight applied to that value
    ConsumedDeWeight { level: usize, j: usize, neg: bool, big: u8, tol_exp: i32 },
}

fn call_integrator(f: Family, g: &mut dyn FnMut(f64) -> f64, tol: f64) -> Result<Result<f64, String>, Caught> {
    guard(|| match f {
        Family::Legendre => bi::integrate_gaussian::<f64, _>(-1.0, 1.0, |x| g(x), 4.0 * tol),
        Family::Hermite => bi::integrate_hermite::<f64, _>(|x| g(x), tol),
        Family::Laguerre => bi::integrate_laguerre::<f64, _>(|x| g(x), tol),
        Family::Chebyshev1 => bi::integrate_chebyshev::<f64, _>(|x| g(x), tol),
        Family::Chebyshev2 => bi::integrate_chebyshev_second::<f64, _>(|x| g(x), tol),
    })
}

/// rule index (0-based) of evaluation number `i` when rule k is asked for k + 1 values
fn rule_of_call(i: usize) -> usize {
    let mut k = 0;
    let mut start = 0;
    while start + k + 1 <= i {
        start += k + 1;
        k += 1;
    }
    k
}

pub fn table(f: Family) -> &'static [&'static [(f64, f64)]] {
    match f {
        Family::Legendre => tables::WEIGHTS_LEGENDRE,
        Family::Hermite => tables::WEIGHTS_HERMITE,
        Family::Laguerre => tables::WEIGHTS_LAGUERRE,
        Family::Chebyshev1 => tables::WEIGHTS_CHEBYSHEV,
        Family::Chebyshev2 => tables::WEIGHTS_CHEBYSHEV_SECOND,
    }
}

/// expansion exactly as the integrators consume a row
pub fn expand(f: Family, row: &[(f64, f64)]) -> Vec<(f64, f64)> {
    let mut v = vec![];
    for &(x, w) in row {
        if f == Family::Laguerre {
            v.push((x, w));
        } else if x == 0.0 {
            v.push((0.0, w));
        } else {
            v.push((x, w));
            v.push((-x, w));
        }
    }
    v.sort_by(|a, b| a.0.partial_cmp(&b.0).unwrap());
    v
}

fn splitmix(x: &mut u64) -> f64 {
    *x = x.wrapping_add(0x9E3779B97F4A7C15);
    let mut z = *x;
    z = (z ^ (z >> 30)).wrapping_mul(0xBF58476D1CE4E5B9);
    z = (z ^ (z >> 27)).wrapping_mul(0x94D049BB133111EB);
    z ^= z >> 31;
    (z >> 11) as f64 / (1u64 << 53) as f64 * 2.0 - 1.0
}

/// the documented tanh-sinh loop over the table of the working tree (reference for the rule as consumed)
fn de_reference(f: &mut dyn FnMut(f64) -> f64, tol: f64) -> Result<f64, ()> {
    let mut error_estimate = 1.0 + tol;
    let mut evals = 1usize;
    let mut current_delta: f64 = 0.0;
    let mut integral = std::f64::consts::PI * f(0.0);
    for level in tables::WEIGHTS_DE.iter() {
        let mut new = 0.0;
        for &(w, x) in level.iter() {
            new += w * (f(x) + f(-x));
        }
        evals += 2 * level.len();
        let previous_delta_ln = current_delta.ln();
        current_delta = (0.5 * integral - new).abs();
        integral = 0.5 * integral + new;
        if evals <= 13 {
            continue;
        }
        if current_delta == 0.0 {
            error_estimate = 0.0;
            break;
        }
        let r = current_delta.ln() / previous_delta_ln;
        error_estimate = if r > 1.9 && r < 2.1 { current_delta * current_delta } else { current_delta };
        if error_estimate < tol {
            break;
        }
    }
    if error_estimate < tol {
        Ok(integral)
    } else {
        Err(())
    }
}

const EXACT_TOL: f64 = 1e-9;

pub fn run_case(case: &Case) -> Outcome {
    let mut o = Obs::new();
    match case {
        Case::Shape => {
            o.label("shape");
            o.nontrivial = true;
            let lens: Vec<usize> = FAMILIES.iter().map(|f| table(*f).len()).collect();
            o.set("rows", &lens);
            // the library's sequences: 12 Legendre, 27 Hermite, 12 Laguerre, 100 + 100 Chebyshev rules
            if lens != vec![12, 27, 12, 100, 100] {
                return o.fail(format!("table row counts {lens:?} differ from 12/27/12/100/100"));
            }
            if tables::WEIGHTS_DE.iter().map(|l| l.len()).collect::<Vec<_>>() != DE_COUNTS.to_vec() {
                return o.fail("tanh-sinh level sizes differ from 3,3,6,12,24,48,96");
            }
            o.pass()
        }
        Case::Row { family, row } => {
            let f = FAMILIES[*family % 5];
            let t = table(f);
            let Some(r) = t.get(*row) else { return o.discard("row out of range") };
            let n = row + 1;
            o.label(f.name());
            o.nontrivial = n >= 2;
            let pts = expand(f, r);
            o.set("n", n);
            o.set("points", pts.len());
            if pts.len() != n {
                return o.fail(format!("{} rule at position {n} expands to {} points (centre node counted once, symmetric pairs twice)", f.name(), pts.len()));
            }
            let (lo, hi) = f.domain();
            for (i, &(x, w)) in pts.iter().enumerate() {
                if !(x.is_finite() && w.is_finite()) {
                    return o.fail("non-finite table entry");
                }
                if !(w > 0.0) {
                    return o.fail(format!("{} n={n}: weight {w:e} at node {x:e} is not positive", f.name()));
                }
                if !(x > lo && x < hi) {
                    return o.fail(format!("{} n={n}: node {x:e} outside the integration domain", f.name()));
                }
                if i > 0 && !(x - pts[i - 1].0 > 1e-12) {
                    return o.fail(format!("{} n={n}: nodes {:e} and {x:e} are not distinct", f.name(), pts[i - 1].0));
                }
            }
            // exactness on monomials
            let mut worst: f64 = 0.0;
            for k in 0..=(2 * n - 1) {
                let (mut s, mut sa) = (0.0, 0.0);
                for &(x, w) in &pts {
                    let t = w * x.powi(k as i32);
                    s += t;
                    sa += t.abs();
                }
                let err = (s - f.moment(k)).abs();
                let bound = EXACT_TOL * sa.max(f.moment(k).abs());
                worst = worst.max(err / bound);
                if !(err <= bound) {
                    return o.fail(format!("{} n={n}: x^{k} integrates to {s:e}, exact moment {:e} (|diff| {err:e} > {bound:e})", f.name(), f.moment(k)));
                }
            }
            o.set("ratio_monomial", worst);
            // independent rule
            let rule = gauss_rule(f, n);
            let (gx, gw) = (&rule.0, &rule.1);
            let wmax = gw.iter().cloned().fold(0.0, f64::max);
            let mut wn: f64 = 0.0;
            for i in 0..n {
                let dx = (pts[i].0 - gx[i]).abs();
                let dw = (pts[i].1 - gw[i]).abs();
                // Golub-Welsch accuracy: ~1e-13 in the nodes, absolute ~1e-13 mu0 in the weights
                let bx = 1e-10 * gx[i].abs().max(1.0);
                let bw = 1e-10 * wmax;
                wn = wn.max(dx / bx).max(dw / bw);
                if !(dx <= bx) {
                    return o.fail(format!("{} n={n}: node #{i} = {:e} differs from the independently computed Gauss node {:e}", f.name(), pts[i].0, gx[i]));
                }
                if !(dw <= bw) {
                    return o.fail(format!("{} n={n}: weight #{i} = {:e} differs from the independently computed Gauss weight {:e}", f.name(), pts[i].1, gw[i]));
                }
            }
            o.set("ratio_independent", wn);
            o.pass()
        }
        Case::RandPoly { family, row, seed } => {
            let f = FAMILIES[*family % 5];
            let t = table(f);
            let row = *row % t.len();
            let n = row + 1;
            o.label(format!("rand-{}", f.name()));
            o.nontrivial = n >= 2;
            let pts = expand(f, t[row]);
            if pts.len() != n {
                return o.fail(format!("{} rule at position {n} expands to {} points", f.name(), pts.len()));
            }
            let m = 2 * n - 1;
            let mut st = *seed;
            let a: Vec<f64> = (0..=m).map(|_| splitmix(&mut st)).collect();
            let (mut s, mut sa) = (0.0, 0.0);
            for &(x, w) in &pts {
                let phi = f.orthonormal(m, x);
                let p: f64 = phi.iter().zip(a.iter()).map(|(u, v)| u * v).sum();
                s += w * p;
                sa += w * p.abs();
            }
            let exact = a[0] * f.mu0().sqrt();
            let err = (s - exact).abs();
            let bound = EXACT_TOL * sa.max(exact.abs()).max(1e-300);
            o.set("ratio_randpoly", err / bound);
            if !(err <= bound) {
                return o.fail(format!("{} n={n}: random polynomial of degree {m} (orthonormal basis, seed {seed}) integrates to {s:e}, exact {exact:e}", f.name()));
            }
            o.pass()
        }
        Case::De { level, j } => {
            o.label("tanh-sinh");
            o.nontrivial = true;
            let Some(l) = tables::WEIGHTS_DE.get(*level) else { return o.discard("level") };
            let Some(&(w, x)) = l.get(*j) else { return o.discard("index") };
            let (rw, rx) = de_pair(*level, *j);
            o.set("table", (w, x));
            o.set("formula", (rw, rx));
            let rel = ((w - rw) / rw).abs();
            o.set("ratio_de_weight", rel / 1e-12);
            if !(rel <= 1e-12) {
                return o.fail(format!("tanh-sinh level {level} index {j}: weight {w:e} differs from the double-exponential formula {rw:e} (rel {rel:e})"));
            }
            if !((x - rx).abs() <= 4.0 * EPS) {
                return o.fail(format!("tanh-sinh level {level} index {j}: abscissa {x:e} differs from the formula {rx:e}"));
            }
            o.pass()
        }
        Case::ConsumedNodes { family } => {
            let f = FAMILIES[*family % 5];
            o.label(format!("consumed-nodes-{}", f.name()));
            o.nontrivial = true;
            let rows = table(f);
            let total: usize = (1..=rows.len()).sum();
            // alternating constants per rule: consecutive areas differ by about the zeroth moment, never within tol
            let mut xs: Vec<f64> = vec![];
            let mut g = |x: f64| {
                let k = rule_of_call(xs.len());
                xs.push(x);
                if k % 2 == 0 {
                    1.0
                } else {
                    0.0
                }
            };
            let res = call_integrator(f, &mut g, 1e-3);
            match res {
                Ok(Err(_)) => {}
                Ok(Ok(v)) => return o.fail(format!("integrate_{}: an integrand whose rule values alternate returned Ok({v:e})", f.name())),
                Err(c) => return o.fail(format!("{c:?}")),
            }
            if xs.len() != total {
                return o.fail(format!("integrate_{} evaluated the integrand {} times while walking through all {} rules; rules of 1, 2, ..., {} points need {total}", f.name(), xs.len(), rows.len(), rows.len()));
            }
            let mut at = 0;
            for (k, row) in rows.iter().enumerate() {
                let mut got: Vec<f64> = xs[at..at + k + 1].to_vec();
                at += k + 1;
                got.sort_by(|a, b| a.partial_cmp(b).unwrap());
                let want: Vec<f64> = expand(f, row).iter().map(|p| p.0).collect();
                if got.len() != want.len() || got.iter().zip(want.iter()).any(|(a, b)| a.to_bits() != b.to_bits() && !(*a == 0.0 && *b == 0.0)) {
                    return o.fail(format!("integrate_{}: the rule at position {} was evaluated at {got:?}, the table row has the nodes {want:?}", f.name(), k + 1));
                }
            }
            o.pass()
        }
        Case::ConsumedWeights { family, row } => {
            let f = FAMILIES[*family % 5];
            o.label(format!("consumed-weights-{}", f.name()));
            o.nontrivial = true;
            let rows = table(f);
            let n = *row + 1;
            if n < 4 || n > rows.len() {
                return o.discard("weights can be read out through the integrator from the fourth rule on");
            }
            let first: usize = (1..n).sum();
            let expanded = expand(f, rows[n - 1]);
            for j in 0..n {
                // rules 1..n-3: alternating 0 / 1e3 (the last of them 1e3) - never two agreeing in a row;
                // rules n-2 and n-1: zero; rule n: one at evaluation j, zero elsewhere; tolerance 10 > every weight
                let mut count = 0usize;
                let mut xj = f64::NAN;
                let mut g = |x: f64| {
                    let i = count;
                    count += 1;
                    let k = rule_of_call(i) + 1;
                    if k + 2 < n {
                        if (n - 3 - k) % 2 == 0 {
                            1e3
                        } else {
                            0.0
                        }
                    } else if k < n {
                        0.0
                    } else if k == n && i == first + j {
                        xj = x;
                        1.0
                    } else {
                        0.0
                    }
                };
                let res = call_integrator(f, &mut g, 10.0);
                let v = match res {
                    Ok(Ok(v)) => v,
                    Ok(Err(e)) => return o.fail(format!("integrate_{}: weight probe of rule {n}, evaluation {j}, returned Err({e})", f.name())),
                    Err(c) => return o.fail(format!("{c:?}")),
                };
                if count != first + n {
                    return o.fail(format!("integrate_{}: weight probe of rule {n} used {count} evaluations, expected {}", f.name(), first + n));
                }
                let Some(&(_, w)) = expanded.iter().find(|p| p.0.to_bits() == xj.to_bits() || (p.0 == 0.0 && xj == 0.0)) else {
                    return o.fail(format!("integrate_{}: rule {n} evaluated the integrand at {xj:e}, which is not a node of the table row", f.name()));
                };
                if v.to_bits() != w.to_bits() {
                    return o.fail(format!("integrate_{}: rule {n} applies the weight {v:e} at the node {xj:e}; the table has {w:e}", f.name()));
                }
            }
            o.pass()
        }
        Case::ConsumedPoly { family, row, seed } => {
            let f = FAMILIES[*family % 5];
            o.label(format!("consumed-poly-{}", f.name()));
            o.nontrivial = true;
            let rows = table(f);
            let n = 4 + *row % (rows.len() - 3);
            let first: usize = (1..n).sum();
            let expanded = expand(f, rows[n - 1]);
            let m = 2 * n - 1;
            let mut st = *seed;
            let a: Vec<f64> = (0..=m).map(|_| splitmix(&mut st)).collect();
            let poly = |x: f64| -> f64 { f.orthonormal(m, x).iter().zip(a.iter()).map(|(u, v)| u * v).sum() };
            let sa: f64 = expanded.iter().map(|&(x, w)| w * poly(x).abs()).sum();
            if !(sa > 1e-300 && sa.is_finite()) {
                return o.discard("degenerate polynomial");
            }
            let scale = 1.0 / sa;
            let mut count = 0usize;
            let mut g = |x: f64| {
                let i = count;
                count += 1;
                let k = rule_of_call(i) + 1;
                if k + 2 < n {
                    if (n - 3 - k) % 2 == 0 {
                        1e3
                    } else {
                        0.0
                    }
                } else if k < n {
                    0.0
                } else {
                    scale * poly(x)
                }
            };
            let res = call_integrator(f, &mut g, 10.0);
            let v = match res {
                Ok(Ok(v)) => v,
                Ok(Err(e)) => return o.fail(format!("integrate_{}: polynomial probe of rule {n} returned Err({e})", f.name())),
                Err(c) => return o.fail(format!("{c:?}")),
            };
            if count != first + n {
                return o.fail(format!("integrate_{}: polynomial probe of rule {n} used {count} evaluations, expected {}", f.name(), first + n));
            }
            let exact = scale * a[0] * f.mu0().sqrt();
            let err = (v - exact).abs();
            let bound = EXACT_TOL * exact.abs().max(1.0);
            o.set("ratio_consumed_poly", err / bound);
            if !(err <= bound) {
                return o.fail(format!("integrate_{}: the rule at position {n}, applied by the integrator to a random polynomial of degree {m} (orthonormal basis, seed {seed}, scaled to sum w|p| = 1), gives {v:e}; the exact integral is {exact:e}", f.name()));
            }
            o.pass()
        }
        Case::NarrowLegendre { mid, ulps } => {
            o.label("consumed-legendre-narrow-interval");
            o.nontrivial = true;
            let a = *mid;
            let mut b = a;
            for _ in 0..*ulps {
                b = f64::from_bits(if b > 0.0 { b.to_bits() + 1 } else { b.to_bits() - 1 });
            }
            if !(b > a) {
                return o.discard("degenerate interval");
            }
            let width = b - a;
            // (i) a constant: every rule gives constant x width, the second rule already agrees with the first
            let res = guard(|| bi::integrate_gaussian::<f64, _>(a, b, |_x| 3.0, 1e-3 * width));
            match res {
                Ok(Ok(v)) => {
                    if !((v - 3.0 * width).abs() <= 1e-9 * 3.0 * width) {
                        return o.fail(format!("integrate_gaussian of the constant 3 over [{a:e}, {a:e} + {ulps} ulp] = {v:e}; width x 3 = {:e}", 3.0 * width));
                    }
                }
                Ok(Err(e)) => return o.fail(format!("integrate_gaussian of a constant over a {ulps}-ulp interval returned Err({e})")),
                Err(c) => return o.fail(format!("{c:?}")),
            }
            // (ii) never-converging level values: all rules of the sequence, n evaluations each, all inside [a, b]
            let rows = table(Family::Legendre);
            let total: usize = (1..=rows.len()).sum();
            let mut xs: Vec<f64> = vec![];
            let res = guard(|| {
                bi::integrate_gaussian::<f64, _>(a, b, |x| {
                    let k = rule_of_call(xs.len());
                    xs.push(x);
                    if k % 2 == 0 {
                        1.0
                    } else {
                        0.0
                    }
                }, 1e-3 * width)
            });
            match res {
                Ok(Err(_)) => {}
                Ok(Ok(v)) => return o.fail(format!("integrate_gaussian: alternating rule values over a {ulps}-ulp interval returned Ok({v:e})")),
                Err(c) => return o.fail(format!("{c:?}")),
            }
            if xs.len() != total {
                return o.fail(format!("integrate_gaussian over an interval {ulps} ulp wide at {a:e} evaluated the integrand {} times while walking through all {} rules; rules of 1, 2, ..., {} points need {total}", xs.len(), rows.len(), rows.len()));
            }
            if let Some(x) = xs.iter().find(|x| !(**x >= a && **x <= b)) {
                return o.fail(format!("integrate_gaussian evaluated the integrand at {x:e}, outside [{a:e}, {b:e}]"));
            }
            o.pass()
        }
        Case::ConsumedDeNodes { tol_exp } => {
            o.label("consumed-tanh-sinh-nodes");
            o.nontrivial = true;
            let tol = 10f64.powi(*tol_exp);
            let starts: Vec<usize> = {
                let mut v = vec![1usize];
                for l in tables::WEIGHTS_DE.iter() {
                    v.push(v.last().unwrap() + 2 * l.len());
                }
                v
            };
            let mut xs: Vec<f64> = vec![];
            let res = guard(|| {
                bi::integrate::<f64, _>(-1.0, 1.0, |x| {
                    let i = xs.len();
                    xs.push(x);
                    // level values alternate between 0 and 1e9: no two consecutive estimates agree
                    let level = starts.iter().position(|&s| i < s).unwrap_or(starts.len());
                    if level % 2 == 0 {
                        1e9
                    } else {
                        0.0
                    }
                }, tol)
            });
            match res {
                Ok(Err(_)) => {}
                Ok(Ok(v)) => return o.fail(format!("integrate: an integrand whose level values alternate between 0 and 1e9 returned Ok({v:e}) at tol {tol:e}")),
                Err(c) => return o.fail(format!("{c:?}")),
            }
            let mut want: Vec<f64> = vec![0.0];
            for l in tables::WEIGHTS_DE.iter() {
                for &(_, x) in l.iter() {
                    want.push(x);
                    want.push(-x);
                }
            }
            if xs.len() != want.len() || xs.iter().zip(want.iter()).any(|(a, b)| a.to_bits() != b.to_bits() && !(*a == 0.0 && *b == 0.0)) {
                let k = xs.iter().zip(want.iter()).position(|(a, b)| a.to_bits() != b.to_bits() && !(*a == 0.0 && *b == 0.0)).unwrap_or(xs.len().min(want.len()));
                return o.fail(format!("integrate on [-1,1] at tol {tol:e}: {} evaluations, the table has {} abscissae; first difference at evaluation {k}: {:?} vs table {:?}", xs.len(), want.len(), xs.get(k), want.get(k)));
            }
            o.pass()
        }
        Case::ConsumedDeWeight { level, j, neg, big, tol_exp } => {
            o.label("consumed-tanh-sinh-weight");
            o.nontrivial = true;
            let Some(l) = tables::WEIGHTS_DE.get(*level) else { return o.discard("level") };
            if *j >= l.len() {
                return o.discard("index");
            }
            let tol = 10f64.powi(*tol_exp);
            let value = match big {
                0 => 1.0,
                1 => 1e200,
                2 => -3e160,
                _ => 1e-200,
            };
            let start: usize = 1 + tables::WEIGHTS_DE.iter().take(*level).map(|l| 2 * l.len()).sum::<usize>();
            let target = start + 2 * j + usize::from(*neg);
            let mut count = 0usize;
            let res = guard(|| {
                bi::integrate::<f64, _>(-1.0, 1.0, |_x| {
                    let i = count;
                    count += 1;
                    if i == target {
                        value
                    } else {
                        0.0
                    }
                }, tol)
            });
            let mut rc = 0usize;
            let want = de_reference(&mut |_x| {
                let i = rc;
                rc += 1;
                if i == target {
                    value
                } else {
                    0.0
                }
            }, tol);
            match (res, want) {
                (Err(c), _) => o.fail(format!("{c:?}")),
                (Ok(Ok(v)), Ok(w)) => {
                    if count != rc {
                        return o.fail(format!("integrate used {count} evaluations for a probe at level {level} index {j}; the documented loop over the table uses {rc}"));
                    }
                    if (v - w).abs() <= 1e-14 * w.abs() {
                        o.pass()
                    } else {
                        o.fail(format!("integrate: an integrand that is {value:e} at the single abscissa (level {level}, index {j}, {}) and 0 elsewhere gives {v:e}; the table weight applied by the documented loop gives {w:e}", if *neg { "-x" } else { "+x" }))
                    }
                }
                (Ok(Err(_)), Err(())) => {
                    if count != rc {
                        return o.fail(format!("integrate used {count} evaluations before giving up on a probe at level {level} index {j}; the documented loop over the table uses {rc}"));
                    }
                    o.pass()
                }
                (Ok(a), b) => o.fail(format!("integrate returned {a:?} for a single-abscissa probe (level {level}, index {j}, value {value:e}, tol {tol:e}); the documented loop over the table gives {b:?}")),
            }
        }
        Case::EndToEnd { family, k } => {
            let f = FAMILIES[*family % 5];
            o.label(format!("end-to-end-{}", f.name()));
            o.nontrivial = *k >= 2;
            let k = *k;
            let tol = 1e-9 * f.moment(if k % 2 == 0 || f == Family::Laguerre { k } else { k + 1 }).max(1.0);
            let g = |x: f64| x.powi(k as i32);
            let res = guard(|| match f {
                Family::Legendre => bi::integrate_gaussian::<f64, _>(-1.0, 1.0, g, tol),
                Family::Hermite => bi::integrate_hermite::<f64, _>(g, tol),
                Family::Laguerre => bi::integrate_laguerre::<f64, _>(g, tol),
                Family::Chebyshev1 => bi::integrate_chebyshev::<f64, _>(g, tol),
                Family::Chebyshev2 => bi::integrate_chebyshev_second::<f64, _>(g, tol),
            });
            match res {
                Ok(Ok(v)) => {
                    let err = (v - f.moment(k)).abs();
                    o.set("value", v);
                    if err <= 4.0 * tol {
                        o.pass()
                    } else {
                        o.fail(format!("integrate_{} of x^{k} = {v:e}, exact moment {:e}", f.name(), f.moment(k)))
                    }
                }
                Ok(Err(e)) => o.fail(format!("integrate_{} of x^{k} returned Err({e})", f.name())),
                Err(c) => o.fail(format!("{c:?}")),
            }
        }
    }
}

fn strategy(_t: Tier) -> BoxedStrategy<Case> {
    prop_oneof![
        3 => (0usize..5, 0usize..100, any::<u64>()).prop_map(|(family, row, seed)| Case::RandPoly { family, row, seed }),
        1 => (0usize..5, 0usize..100, any::<u64>()).prop_map(|(family, row, seed)| Case::ConsumedPoly { family, row, seed }),
    ]
    .boxed()
}

pub fn run(opts: &Opts) -> i32 {
    let mut spec = Spec::new("C10", strategy, run_case);
    spec.enumerated.push(Case::Shape);
    for (fi, f) in FAMILIES.iter().enumerate() {
        for row in 0..table(*f).len() {
            spec.enumerated.push(Case::Row { family: fi, row });
            for s in 0..opts.tier.pick(8u64, 64) {
                spec.enumerated.push(Case::RandPoly { family: fi, row, seed: 1000 * row as u64 + s + 77 * opts.seed });
            }
        }
    }
    for (level, l) in tables::WEIGHTS_DE.iter().enumerate() {
        for j in 0..l.len() {
            spec.enumerated.push(Case::De { level, j });
        }
    }
    // end-to-end: the routine returns the third consecutive exact rule, so degrees up to 2(N-2)-1
    for (fi, f) in FAMILIES.iter().enumerate() {
        let nrules = table(*f).len();
        let kmax = match f {
            Family::Hermite => 12,
            Family::Chebyshev1 | Family::Chebyshev2 => 30,
            // high-degree monomials against e^-x: the low-order rules all give values far below the
            // moment k!, so the two-consecutive-agreement rule would stop by coincidence
            Family::Laguerre => 8,
            _ => 2 * (nrules.saturating_sub(2)) - 1,
        };
        for k in 0..=kmax {
            spec.enumerated.push(Case::EndToEnd { family: fi, k });
        }
    }
    // the rules as consumed by the public integrators
    for (fi, f) in FAMILIES.iter().enumerate() {
        spec.enumerated.push(Case::ConsumedNodes { family: fi });
        for row in 3..table(*f).len() {
            spec.enumerated.push(Case::ConsumedWeights { family: fi, row });
            for sd in 0..opts.tier.pick(2u64, 8) {
                spec.enumerated.push(Case::ConsumedPoly { family: fi, row: row - 3, seed: 500 * row as u64 + sd + 131 * opts.seed });
            }
        }
    }
    for mid in [1.7e9, 1.7, -0.3, 1.7e-3, 1e-300, -5e4] {
        for ulps in [1u32, 2, 3, 8, 20, 200] {
            spec.enumerated.push(Case::NarrowLegendre { mid, ulps });
        }
    }
    // the tanh-sinh table as consumed by `integrate`
    for tol_exp in [-12, -8, -6, -3, -1, 1, 3] {
        spec.enumerated.push(Case::ConsumedDeNodes { tol_exp });
    }
    for (level, l) in tables::WEIGHTS_DE.iter().enumerate() {
        for j in 0..l.len() {
            for neg in [false, true] {
                for (big, tol_exp) in [(0u8, 1), (0, -3), (1, 1), (2, -3), (3, -3)] {
                    spec.enumerated.push(Case::ConsumedDeWeight { level, j, neg, big, tol_exp });
                }
            }
        }
    }
    spec.cases = opts.tier.pick(5_000, 100_000);
    spec.exhaustive = Some("every row of the five Gaussian tables (structure, all monomials of degree <= 2n-1, independent Golub-Welsch/closed-form rule) and every tanh-sinh pair (also as consumed by integrate: every abscissa, every weight); the nodes of every rule and the weights of every rule from the fourth on as applied by the public integrators".into());
    spec.rule = "enumerated: every row n of WEIGHTS_LEGENDRE/HERMITE/LAGUERRE/CHEBYSHEV/CHEBYSHEV_SECOND of the working tree, expanded as the integrators consume it (x == 0.0 once, otherwise +-x): exactly n points, distinct (>1e-12), inside the domain, positive weights, every monomial of degree <= 2n-1 against the exact moment within 1e-9 sum w|p|, node/weight agreement with an independently computed rule (Golub-Welsch eigenproblem, closed-form Chebyshev) within 1e-10; random polynomials of degree <= 2n-1 in the orthonormal basis (8/64 per row enumerated + generated seeds); every tanh-sinh (w,x) against the double-exponential formula (rel 1e-12 / abs 4 eps); end-to-end integrate_* on monomials. As consumed by the public integrators: a never-converging instrumented integrand records every abscissa (rule n must be asked for exactly the n table nodes, n(n+1)/2 evaluations in total) and an integrand that is 1 at a single evaluation reads out the weight applied there for every rule from the fourth on (bit-equal to the table); the same read-out with a random signed polynomial of degree <= 2n-1 at all nodes of the rule (2/8 per row enumerated + generated seeds) must give its exact integral within 1e-9 sum w|p| - the rule as a linear functional. The Gauss-Legendre rules as consumed on intervals 1-200 ulp wide at six magnitudes (mapped nodes coincide: a constant still integrates to constant x width, n(n+1)/2 evaluations inside the interval). The tanh-sinh table as `integrate` consumes it on [-1,1]: with an integrand whose level values never settle, every abscissa of every level (centre, then +x, -x per pair) is evaluated bit-exactly and in order at tolerances 1e-12 ... 1e3; an integrand that is 1, 1e200, -3e160 or 1e-200 at a single evaluation and 0 elsewhere must give what the documented loop gives with the table weight applied to that value (1e-14 relative, same Ok/Err, same number of evaluations), for every pair and both sides. Non-trivial = rows with n >= 2, all tanh-sinh pairs. Distinct = distinct case JSON.".into();
    spec.assumptions = vec!["exact moments from Gamma-function closed forms".into(), "nalgebra SymmetricEigen accurate to ~1e-13 for the Jacobi matrices up to n = 27".into()];
    spec.max_discard_frac = 0.0;
    run_spec(spec, opts)
}

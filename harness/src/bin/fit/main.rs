mod c17;

fn main() {
    let opts = bverif::engine::parse_args();
    let code = match opts.prop.as_str() {
        "C17" => c17::run(&opts),
        p => {
            eprintln!("fit: unknown property {p}");
            2
        }
    };
    std::process::exit(code);
}

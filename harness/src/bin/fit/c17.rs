//! C17 — least-squares fitting returns the least-squares solution.

use bacon_sci::optimize::{curve_fit, curve_fit_jac, linear_fit, CurveFitParams};
use bverif::engine::*;
use nalgebra::{DMatrix, DVector, SVector};
use num_complex::Complex64 as C64;
use proptest::prelude::*;
use serde::{Deserialize, Serialize};
use std::cell::Cell;

#[derive(Clone, Debug, Serialize, Deserialize)]
pub enum Case {
    /// linear_fit on exactly linear complex data y = slope x + icpt over complex abscissae: must be reproduced
    LinearComplex { xs: Vec<(f64, f64)>, slope: (f64, f64), icpt: (f64, f64) },
    /// curve_fit_jac on complex data: model linear in 1-4 complex parameters (basis 0 polynomial / 1 trigonometric,
    /// real abscissae), complex truth, start and noise
    CurveComplex {
        basis: u8,
        nparam: usize,
        xs: Vec<f64>,
        truth: Vec<(f64, f64)>,
        start: Vec<(f64, f64)>,
        noise: Vec<(f64, f64)>,
        noise_amp: f64,
        tol: f64,
        damping: f64,
        mult: f64,
        /// 0: arbitrary complex start; 1-3: noise-free data and start = truth + phase x (real vector), phase 1+i, 1-i, i:
        /// every residual then has the same complex phase (sum r^2 is purely imaginary or negative while sum |r|^2 is not)
        #[serde(default)]
        phase_lock: u8,
    },
    Linear {
        xs: Vec<f64>,
        slope: f64,
        icpt: f64,
        noise: Vec<f64>,
        noise_amp: f64,
        perm_seed: u64,
        mismatch: bool,
        /// abscissae are offset + spread * xs (data far from the origin relative to their spread: years, a cluster)
        #[serde(default)]
        offset: f64,
        #[serde(default)]
        spread_exp: f64,
        /// ordinates (slope, intercept and noise) times 10^yscale_exp: the fit is linear in the ordinates
        #[serde(default)]
        yscale_exp: f64,
    },
    Curve {
        /// 0 polynomial basis, 1 trigonometric basis (linear in parameters); 2 a e^{bx}+c, 3 gaussian, 4 logistic
        model: u8,
        /// number of parameters for the linear-in-parameter models (1..=4); the non-linear models have 3
        nparam: usize,
        xs: Vec<f64>,
        truth: Vec<f64>,
        /// start: arbitrary in [-2,2] (linear models) or truth*(1+0.2*s) (non-linear)
        start: Vec<f64>,
        noise: Vec<f64>,
        noise_amp: f64,
        tol: f64,
        damping: f64,
        mult: f64,
        h: f64,
        /// false: analytic Jacobian (curve_fit_jac); true: finite differences (curve_fit)
        fd: bool,
        /// 0 valid, 1 negative tolerance, 2 negative h (fd only), 3 negative damping, 4 mismatched lengths
        invalid: u8,
        /// models linear in their parameters: truth and start times 10^pscale_exp (large ordinates, sums of squares far
        /// above 1 under an absolute tolerance)
        #[serde(default)]
        pscale_exp: f64,
    },
}

// ------------------------------------------------------------------------------------------------
// models

fn model_eval(model: u8, x: f64, p: &[f64]) -> f64 {
    match model {
        0 => {
            let mut acc = 0.0;
            for a in p.iter().rev() {
                acc = acc * x + a;
            }
            acc
        }
        1 => {
            let basis = [1.0, x.sin(), x.cos(), (2.0 * x).sin()];
            p.iter().zip(basis.iter()).map(|(a, b)| a * b).sum()
        }
        2 => p[0] * (p[1] * x).exp() + p[2],
        3 => p[0] * (-(x - p[1]).powi(2) / (2.0 * p[2] * p[2])).exp(),
        _ => p[0] / (1.0 + (-p[1] * (x - p[2])).exp()),
    }
}

fn model_grad(model: u8, x: f64, p: &[f64]) -> Vec<f64> {
    match model {
        0 => (0..p.len()).map(|k| x.powi(k as i32)).collect(),
        1 => [1.0, x.sin(), x.cos(), (2.0 * x).sin()][..p.len()].to_vec(),
        2 => {
            let e = (p[1] * x).exp();
            vec![e, p[0] * x * e, 1.0]
        }
        3 => {
            let d = x - p[1];
            let e = (-d * d / (2.0 * p[2] * p[2])).exp();
            vec![e, p[0] * e * d / (p[2] * p[2]), p[0] * e * d * d / (p[2] * p[2] * p[2])]
        }
        _ => {
            let e = (-p[1] * (x - p[2])).exp();
            let den = 1.0 + e;
            vec![1.0 / den, p[0] * (x - p[2]) * e / (den * den), -p[0] * p[1] * e / (den * den)]
        }
    }
}

const MODEL_NAMES: [&str; 5] = ["polynomial-basis", "trig-basis", "exponential", "gaussian", "logistic"];

/// reference least-squares solution: Gauss-Newton with analytic Jacobian from `from`, plus lambda_min(J^T J)
fn reference_ls(model: u8, xs: &[f64], ys: &[f64], from: &[f64]) -> Option<(Vec<f64>, f64, f64, f64)> {
    let v = from.len();
    let mut p = DVector::from_column_slice(from);
    let mut lam = 0.0;
    let mut mu = 0.0;
    for _ in 0..200 {
        let j = DMatrix::from_fn(xs.len(), v, |r, c| model_grad(model, xs[r], p.as_slice())[c]);
        let r = DVector::from_fn(xs.len(), |i, _| ys[i] - model_eval(model, xs[i], p.as_slice()));
        let jtj = j.transpose() * &j;
        let eig = nalgebra::SymmetricEigen::new(jtj.clone());
        lam = eig.eigenvalues.iter().cloned().fold(f64::INFINITY, f64::min);
        // smallest eigenvalue of the diagonally scaled matrix D^-1/2 J^T J D^-1/2 (Marquardt scaling)
        let scaled = DMatrix::from_fn(v, v, |a, b| jtj[(a, b)] / (jtj[(a, a)] * jtj[(b, b)]).sqrt());
        mu = nalgebra::SymmetricEigen::new(scaled).eigenvalues.iter().cloned().fold(f64::INFINITY, f64::min);
        let step = jtj.lu().solve(&(j.transpose() * &r))?;
        p += &step;
        if !p.iter().all(|x| x.is_finite()) {
            return None;
        }
        if step.norm() <= 1e-15 * (1.0 + p.norm()) {
            break;
        }
    }
    let rn = (0..xs.len()).map(|i| (ys[i] - model_eval(model, xs[i], p.as_slice())).powi(2)).sum::<f64>().sqrt();
    Some((p.iter().cloned().collect(), lam, rn, mu))
}

// ------------------------------------------------------------------------------------------------
// bug-compatible transliteration of the library's Levenberg-Marquardt loop (known finding K1)

#[derive(Clone, Copy, PartialEq)]
enum JacMode {
    /// (f(p+h) + f(p-h)) / 2h  -- what the library does
    Sum,
    /// (f(p+h) - f(p-h)) / 2h  -- the intended central difference
    Diff,
    /// analytic gradient of catalogue model `m` (transliteration of curve_fit_jac)
    Analytic(u8),
}

struct Budgeted<'a> {
    f: &'a dyn Fn(f64, &[f64]) -> f64,
    calls: Cell<usize>,
    budget: usize,
}

impl<'a> Budgeted<'a> {
    fn call(&self, x: f64, p: &[f64]) -> Option<f64> {
        self.calls.set(self.calls.get() + 1);
        if self.calls.get() > self.budget {
            return None;
        }
        Some((self.f)(x, p))
    }
}

fn jac_fd(f: &Budgeted, xs: &[f64], params: &mut DVector<f64>, mat: &mut DMatrix<f64>, h: f64, mode: JacMode) -> Option<()> {
    if let JacMode::Analytic(m) = mode {
        for row in 0..mat.nrows() {
            let g = model_grad(m, xs[row], params.as_slice());
            for col in 0..mat.ncols() {
                mat[(row, col)] = g[col];
            }
        }
        return Some(());
    }
    let denom = 1.0 / (2.0 * h);
    for row in 0..mat.nrows() {
        for col in 0..mat.ncols() {
            params[col] += h;
            let above = f.call(xs[row], params.as_slice())?;
            params[col] -= h;
            params[col] -= h;
            let below = f.call(xs[row], params.as_slice())?;
            mat[(row, col)] = denom * if mode == JacMode::Sum { above + below } else { above - below };
            params[col] += h;
        }
    }
    Some(())
}

/// outcome of the transliterated loop: parameters, final damping, and the number of main-loop iterations whose
/// accepted trial step had a larger sum of squares than the point it started from (the loop has no step rejection)
struct LmOut {
    params: Vec<f64>,
    damping: f64,
    uphill: usize,
    /// main-loop iterations executed
    iters: usize,
}

/// the linear solve of the loop: curve_fit tries LU only (first solve), curve_fit_jac falls back to full-pivot LU and QR
fn solve_chain(m: &DMatrix<f64>, b: &mut DVector<f64>, fallback: bool) -> bool {
    if m.clone().lu().solve_mut(b) {
        return true;
    }
    if !fallback {
        return false;
    }
    if m.clone().full_piv_lu().solve_mut(b) {
        return true;
    }
    m.clone().qr().solve_mut(b)
}

/// Err(None) = budget exhausted, Err(Some(msg)) = library-style error
fn lm_model(f: &Budgeted, xs: &[f64], ys_in: &[f64], initial: &[f64], tol: f64, mut damping: f64, h: f64, mult: f64, mode: JacMode) -> Result<LmOut, Option<String>> {
    let mut uphill = 0usize;
    let mut iters = 0usize;
    let v = initial.len();
    let mut params = DVector::from_column_slice(initial);
    let ys = DVector::from_column_slice(ys_in);
    let mut jac = DMatrix::<f64>::identity(xs.len(), v);
    jac_fd(f, xs, &mut params, &mut jac, h, mode).ok_or(None)?;
    let mut jac_t = jac.transpose();
    // ---- initial_residuals (params passed by value)
    let (mut sum_sq, mut evaluation) = {
        let mut lp = params.clone();
        let mut resid = Vec::with_capacity(xs.len());
        for (i, &x) in xs.iter().enumerate() {
            resid.push(ys[i] - f.call(x, lp.as_slice()).ok_or(None)?);
        }
        let sum_sq_initial: f64 = resid.iter().map(|r| r * r).fold(0.0, |a, r| a + r);
        let mut sum_sq = sum_sq_initial + 1.0;
        let mut damping_tmp = damping / mult;
        let mut j = 0;
        let mut ev = Vec::with_capacity(xs.len());
        for &x in xs {
            ev.push(f.call(x, lp.as_slice()).ok_or(None)?);
        }
        let mut evaluation = DVector::from_vec(ev);
        while sum_sq > sum_sq_initial && j < 1000 {
            damping_tmp *= mult;
            let diff = &ys - &evaluation;
            let mut b = &jac_t * &diff;
            let mut multiplied = &jac_t * &jac;
            for i in 0..multiplied.ncols() {
                multiplied[(i, i)] *= 1.0 + damping_tmp;
            }
            if !solve_chain(&multiplied, &mut b, matches!(mode, JacMode::Analytic(_))) {
                return Err(Some("curve_fit: unable to solve linear equation".into()));
            }
            lp += &b;
            let mut ev = Vec::with_capacity(xs.len());
            for &x in xs {
                ev.push(f.call(x, lp.as_slice()).ok_or(None)?);
            }
            evaluation = DVector::from_vec(ev);
            let diff = &ys - &evaluation;
            sum_sq = diff.iter().map(|r| r * r).fold(0.0, |a, r| a + r);
            j += 1;
            jac_fd(f, xs, &mut lp, &mut jac, h, mode).ok_or(None)?;
            jac_t = jac.transpose();
        }
        if j != 1000 {
            damping = damping_tmp;
        }
        (sum_sq, evaluation)
    };
    let mut last = sum_sq;
    sum_sq += 2.0 * tol;
    while (last - sum_sq).abs() > tol {
        last = sum_sq;
        let diff = &ys - &evaluation;
        let before: f64 = diff.iter().map(|r| r * r).fold(0.0, |a, r| a + r);
        let mut b = &jac_t * &diff;
        let mut b_div = b.clone();
        let mut multiplied = &jac_t * &jac;
        let mut multiplied_div = multiplied.clone();
        for i in 0..multiplied.ncols() {
            multiplied[(i, i)] *= 1.0 + damping;
        }
        if !solve_chain(&multiplied, &mut b, matches!(mode, JacMode::Analytic(_))) {
            return Err(Some("curve_fit: unable to solve linear equation".into()));
        }
        let new_params = &params + &b;
        for i in 0..multiplied_div.ncols() {
            multiplied_div[(i, i)] *= 1.0 + damping / mult;
        }
        let lu = multiplied_div.clone().lu();
        if !lu.solve_mut(&mut b_div) {
            let lu = multiplied_div.clone().full_piv_lu();
            if !lu.solve_mut(&mut b_div) {
                let qr = multiplied_div.qr();
                if !qr.solve_mut(&mut b_div) {
                    return Err(Some("curve_fit: unable to solve linear equation".into()));
                }
            }
        }
        let new_params_div = &params + &b_div;
        let mut ev = Vec::with_capacity(xs.len());
        for &x in xs {
            ev.push(f.call(x, new_params.as_slice()).ok_or(None)?);
        }
        evaluation = DVector::from_vec(ev);
        let mut ev = Vec::with_capacity(xs.len());
        for &x in xs {
            ev.push(f.call(x, new_params_div.as_slice()).ok_or(None)?);
        }
        let evaluation_div = DVector::from_vec(ev);
        let diff = &ys - &evaluation;
        let diff_div = &ys - &evaluation_div;
        let resid: f64 = diff.iter().map(|r| r * r).fold(0.0, |a, r| a + r);
        let resid_div: f64 = diff_div.iter().map(|r| r * r).fold(0.0, |a, r| a + r);
        if resid_div < resid {
            damping /= mult;
            evaluation = evaluation_div;
            params = new_params_div;
            sum_sq = resid_div;
        } else {
            params = new_params;
            sum_sq = resid;
        }
        if sum_sq > before * (1.0 + 1e-12) {
            uphill += 1;
        }
        iters += 1;
        jac_fd(f, xs, &mut params, &mut jac, h, mode).ok_or(None)?;
        jac_t = jac.transpose();
    }
    Ok(LmOut { params: params.iter().cloned().collect(), damping, uphill, iters })
}

/// Reference Levenberg-Marquardt with step rejection (Marquardt scaling, analytic Jacobian): same start and initial
/// damping; a trial step that does not lower the sum of squares is rejected and the damping raised. Used only to
/// establish that a problem instance is one a safeguarded iteration solves.
fn lm_safeguarded(model: u8, xs: &[f64], ys: &[f64], initial: &[f64], mut damping: f64, mult: f64) -> Option<Vec<f64>> {
    let v = initial.len();
    let mut p = DVector::from_column_slice(initial);
    let res = |p: &DVector<f64>| -> DVector<f64> { DVector::from_fn(xs.len(), |i, _| ys[i] - model_eval(model, xs[i], p.as_slice())) };
    let mut r = res(&p);
    let mut cur = r.norm_squared();
    for _ in 0..5000 {
        let j = DMatrix::from_fn(xs.len(), v, |row, c| model_grad(model, xs[row], p.as_slice())[c]);
        let jt = j.transpose();
        let g = &jt * &r;
        let jtj = &jt * &j;
        let mut accepted = false;
        for _ in 0..200 {
            let mut a = jtj.clone();
            for i in 0..v {
                a[(i, i)] *= 1.0 + damping;
            }
            let step = a.lu().solve(&g)?;
            let q = &p + &step;
            let rq = res(&q);
            let nq = rq.norm_squared();
            if nq.is_finite() && nq <= cur {
                let done = step.norm() <= 1e-14 * (1.0 + p.norm()) || cur - nq <= 1e-30;
                p = q;
                r = rq;
                cur = nq;
                damping = (damping / mult).max(1e-12);
                accepted = true;
                if done {
                    return Some(p.iter().cloned().collect());
                }
                break;
            }
            damping *= mult.max(2.0);
        }
        if !accepted {
            return Some(p.iter().cloned().collect());
        }
    }
    Some(p.iter().cloned().collect())
}

// ------------------------------------------------------------------------------------------------

const BUDGET: usize = 400_000;

fn call_lib<const V: usize>(model: u8, xs: &[f64], ys: &[f64], start: &[f64], prm: &CurveFitParams<f64>, fd: bool, calls: &Cell<usize>) -> Result<Result<Vec<f64>, String>, Caught> {
    let f = |x: f64, p: &SVector<f64, V>| -> f64 {
        calls.set(calls.get() + 1);
        if calls.get() > BUDGET {
            budget_exceeded("model evaluations");
        }
        model_eval(model, x, p.as_slice())
    };
    let jac = |x: f64, p: &SVector<f64, V>| -> SVector<f64, V> { SVector::<f64, V>::from_column_slice(&model_grad(model, x, p.as_slice())) };
    guard(|| if fd { curve_fit::<f64, _, V>(f, xs, ys, start, prm) } else { curve_fit_jac::<f64, _, _, V>(f, xs, ys, start, jac, prm) }.map(|v| v.as_slice().to_vec()))
}

fn call_dispatch(v: usize, model: u8, xs: &[f64], ys: &[f64], start: &[f64], prm: &CurveFitParams<f64>, fd: bool, calls: &Cell<usize>) -> Result<Result<Vec<f64>, String>, Caught> {
    match v {
        1 => call_lib::<1>(model, xs, ys, start, prm, fd, calls),
        2 => call_lib::<2>(model, xs, ys, start, prm, fd, calls),
        3 => call_lib::<3>(model, xs, ys, start, prm, fd, calls),
        _ => call_lib::<4>(model, xs, ys, start, prm, fd, calls),
    }
}

fn lcg_perm(n: usize, seed: u64) -> Vec<usize> {
    let mut idx: Vec<usize> = (0..n).collect();
    let mut s = seed | 1;
    for i in (1..n).rev() {
        s = s.wrapping_mul(6364136223846793005).wrapping_add(1442695040888963407);
        let j = ((s >> 33) as usize) % (i + 1);
        idx.swap(i, j);
    }
    idx
}

fn complex_fit<const V: usize>(basis: u8, xs: &[C64], ys: &[C64], start: &[C64], prm: &CurveFitParams<C64>, calls: &Cell<usize>) -> Result<Result<Vec<C64>, String>, Caught> {
    let b = move |x: C64| -> Vec<f64> { model_grad(basis, x.re, &vec![0.0; V]) };
    let f = |x: C64, p: &SVector<C64, V>| -> C64 {
        calls.set(calls.get() + 1);
        if calls.get() > BUDGET {
            budget_exceeded("model evaluations");
        }
        b(x).iter().zip(p.iter()).map(|(g, q)| q * *g).sum()
    };
    let jac = |x: C64, _p: &SVector<C64, V>| -> SVector<C64, V> { SVector::<C64, V>::from_iterator(b(x).into_iter().map(|g| C64::new(g, 0.0))) };
    guard(|| curve_fit_jac::<C64, _, _, V>(f, xs, ys, start, jac, prm).map(|v| v.iter().cloned().collect()))
}

fn run_complex(case: &Case, mut o: Obs) -> Outcome {
    let Case::CurveComplex { basis, nparam, xs, truth, start, noise, noise_amp, tol, damping, mult, phase_lock } = case else { unreachable!() };
    let noise_amp = &(if *phase_lock != 0 { 0.0 } else { *noise_amp });
    let basis = *basis % 2;
    let v = (*nparam).clamp(1, 4);
    let n = xs.len();
    o.label("curve_fit_jac-complex-data");
    o.label(MODEL_NAMES[basis as usize]);
    let z = |p: &(f64, f64)| C64::new(p.0, p.1);
    let pt: Vec<C64> = truth[..v].iter().map(z).collect();
    let st: Vec<C64> = match phase_lock {
        0 => start[..v].iter().map(z).collect(),
        k => {
            o.label("phase-locked-start");
            let ph = [C64::new(1.0, 1.0), C64::new(1.0, -1.0), C64::new(0.0, 1.0)][(*k as usize - 1) % 3];
            (0..v).map(|i| pt[i] + ph * (0.25 * start[i].0)).collect()
        }
    };
    let g = |x: f64| model_grad(basis, x, &vec![0.0; v]);
    let ys: Vec<C64> = (0..n).map(|i| g(xs[i]).iter().zip(pt.iter()).map(|(b, q)| q * *b).sum::<C64>() + z(&noise[i % noise.len()]) * *noise_amp).collect();
    // reference: complex normal equations (the design matrix is real)
    let j = DMatrix::<f64>::from_fn(n, v, |r, c| g(xs[r])[c]);
    let jtj = j.transpose() * &j;
    let lam = nalgebra::SymmetricEigen::new(jtj.clone()).eigenvalues.iter().cloned().fold(f64::INFINITY, f64::min);
    let scaled = DMatrix::from_fn(v, v, |a, b| jtj[(a, b)] / (jtj[(a, a)] * jtj[(b, b)]).sqrt());
    let mu = nalgebra::SymmetricEigen::new(scaled).eigenvalues.iter().cloned().fold(f64::INFINITY, f64::min);
    if !(lam >= 1e-3) || !(mu >= 1e-5) {
        return o.discard("design not well conditioned (lambda_min(J^T J) < 1e-3)");
    }
    let rhs_re = j.transpose() * DVector::from_fn(n, |i, _| ys[i].re);
    let rhs_im = j.transpose() * DVector::from_fn(n, |i, _| ys[i].im);
    let lu = jtj.clone().lu();
    let (Some(pre), Some(pim)) = (lu.solve(&rhs_re), lu.solve(&rhs_im)) else { return o.discard("reference solve failed") };
    let pstar: Vec<C64> = (0..v).map(|k| C64::new(pre[k], pim[k])).collect();
    o.nontrivial = true;
    if *noise_amp != 0.0 {
        o.label("noisy");
    }
    let prm = CurveFitParams::<C64> { damping: *damping, tolerance: *tol, h: 1e-3, damping_mult: *mult };
    let cxs: Vec<C64> = xs.iter().map(|x| C64::new(*x, 0.0)).collect();
    let calls = Cell::new(0usize);
    let res = match v {
        1 => complex_fit::<1>(basis, &cxs, &ys, &st, &prm, &calls),
        2 => complex_fit::<2>(basis, &cxs, &ys, &st, &prm, &calls),
        3 => complex_fit::<3>(basis, &cxs, &ys, &st, &prm, &calls),
        _ => complex_fit::<4>(basis, &cxs, &ys, &st, &prm, &calls),
    };
    o.set("model_calls", calls.get());
    let pscale = 1.0 + pstar.iter().map(|x| x.norm()).fold(0.0, f64::max);
    // same stopping-rule bound as the real case; for a model linear in its parameters the first damped step always
    // improves, so the damping never exceeds its initial value
    let bound = 10.0 * (tol / lam).sqrt() * (1.0 + damping / (2.0 * mu)).sqrt() + 1e-9 * pscale;
    match res {
        Err(Caught::Budget(_)) => o.fail(format!("complex data: does not terminate: more than {BUDGET} model evaluations")),
        Err(Caught::Panic(m)) => o.fail(format!("complex data: panicked: {m}")),
        Ok(Err(e)) => o.fail(format!("complex data: returned Err({e}) on a well-conditioned linear model")),
        Ok(Ok(p)) => {
            let e = p.iter().zip(pstar.iter()).map(|(a, b)| (a - b).norm_sqr()).sum::<f64>().sqrt();
            o.set("ratio_err_jac_complex", e / bound);
            if p.iter().all(|x| x.re.is_finite() && x.im.is_finite()) && e <= bound {
                o.pass()
            } else {
                o.fail(format!("complex data: returned parameters {p:?}, least-squares solution {pstar:?}: distance {e:e} > {bound:e}"))
            }
        }
    }
}

fn run_linear_complex(case: &Case, mut o: Obs) -> Outcome {
    let Case::LinearComplex { xs, slope, icpt } = case else { unreachable!() };
    o.label("linear_fit-complex-data");
    o.nontrivial = true;
    let z = |p: &(f64, f64)| C64::new(p.0, p.1);
    let xs: Vec<C64> = xs.iter().map(z).collect();
    let (a0, b0) = (z(slope), z(icpt));
    let ys: Vec<C64> = xs.iter().map(|x| a0 * x + b0).collect();
    let m = xs.len() as f64;
    // the formulas are the bilinear ones (no conjugation): well posed when m sum x^2 - (sum x)^2 is not small
    let (sx, sxx): (C64, C64) = (xs.iter().sum(), xs.iter().map(|x| x * x).sum());
    let sabs: f64 = xs.iter().map(|x| x.norm_sqr()).sum();
    let den = sxx * m - sx * sx;
    if !(den.norm() >= 0.05 * m * sabs) {
        return o.discard("complex abscissae for which the bilinear normal equations are nearly singular");
    }
    let p = match guard(|| linear_fit(&xs, &ys)) {
        Ok(Ok(p)) => p,
        Ok(Err(e)) => return o.fail(format!("linear_fit on complex data returned Err({e})")),
        Err(c) => return o.fail(format!("{c:?}")),
    };
    let (a, b) = (p.get_coefficient(1), p.get_coefficient(0));
    let kappa = m * sabs / den.norm();
    let xmax = xs.iter().map(|x| x.norm()).fold(0.0, f64::max);
    let allow = 256.0 * EPS * m * kappa * (a0.norm() * (1.0 + xmax) + b0.norm() + 1e-300);
    let (ea, eb) = ((a - a0).norm(), (b - b0).norm());
    o.set("ratio_exact_complex", (ea / allow).max(eb / (allow * (1.0 + xmax))));
    if p.order() > 1 || !(ea <= allow && eb <= allow * (1.0 + xmax)) {
        return o.fail(format!("exactly linear complex data not reproduced: slope {a:e} vs {a0:e}, intercept {b:e} vs {b0:e} (allowed {allow:e})"));
    }
    o.pass()
}

pub fn run_case(case: &Case) -> Outcome {
    let mut o = Obs::new();
    if let Case::CurveComplex { .. } = case {
        return run_complex(case, o);
    }
    if let Case::LinearComplex { .. } = case {
        return run_linear_complex(case, o);
    }
    match case {
        Case::CurveComplex { .. } | Case::LinearComplex { .. } => unreachable!(),
        Case::Linear { xs, slope, icpt, noise, noise_amp, perm_seed, mismatch, offset, spread_exp, yscale_exp } => {
            let yf = 10f64.powf(*yscale_exp);
            let (slope, icpt, noise_amp) = (&(slope * yf), &(icpt * yf), &(noise_amp * yf));
            if *yscale_exp != 0.0 {
                o.label("scaled-ordinates");
            }
            o.label("linear_fit");
            let spread = 10f64.powf(*spread_exp);
            let xs: &Vec<f64> = &xs.iter().map(|x| offset + spread * x).collect();
            if *offset != 0.0 {
                o.label("offset-abscissae");
            }
            let n = xs.len();
            // abscissae scaled about the origin: the slope scales inversely (the data stay those of the unscaled problem)
            let slope = &(if *offset == 0.0 && *spread_exp != 0.0 { slope / spread } else { *slope });
            if *offset == 0.0 && *spread_exp != 0.0 {
                o.label(if *spread_exp < 0.0 { "scaled-down-abscissae" } else { "scaled-up-abscissae" });
            }
            let ys: Vec<f64> = (0..n).map(|i| slope * xs[i] + icpt + noise_amp * noise[i % noise.len()]).collect();
            if *mismatch {
                o.label("invalid");
                o.nontrivial = true;
                // one ordinate short, one ordinate too many, one abscissa short (chosen by the permutation seed)
                let mut ys_long = ys.clone();
                ys_long.push(ys[0]);
                let (xa, ya): (&[f64], &[f64]) = match perm_seed % 3 {
                    0 => (xs, &ys[..n - 1]),
                    1 => (xs, &ys_long),
                    _ => (&xs[..n - 1], &ys),
                };
                return match guard(|| linear_fit(xa, ya)) {
                    Ok(Err(_)) => o.pass(),
                    Ok(Ok(_)) => o.fail(format!("linear_fit with {} abscissae and {} ordinates returned Ok", xa.len(), ya.len())),
                    Err(c) => o.fail(format!("{c:?}")),
                };
            }
            let p = match guard(|| linear_fit(xs, &ys)) {
                Ok(Ok(p)) => p,
                Ok(Err(e)) => return o.fail(format!("linear_fit returned Err({e})")),
                Err(c) => return o.fail(format!("{c:?}")),
            };
            let (a, b) = (p.get_coefficient(1), p.get_coefficient(0));
            o.set("slope", a);
            o.set("intercept", b);
            if p.order() > 1 || !a.is_finite() || !b.is_finite() {
                return o.fail("linear_fit did not return a finite line");
            }
            // A-priori rounding bounds of the textbook formulas a = (m Sxy - Sx Sy)/D, b = (Sxx Sy - Sxy Sx)/D,
            // D = m Sxx - Sx^2: each sum of n terms carries <= n eps of its absolute sum, the cancellations in the
            // numerators and in D then lose kappa = Sxx / sum (x - mean)^2. KB is the safety factor on top.
            const KB: f64 = 4.0;
            let m = n as f64;
            let (sx, sy, sxx, sxy): (f64, f64, f64, f64) = (xs.iter().sum(), ys.iter().sum(), xs.iter().map(|x| x * x).sum(), xs.iter().zip(ys.iter()).map(|(x, y)| x * y).sum());
            let (ax, ay, axy): (f64, f64, f64) = (xs.iter().map(|x| x.abs()).sum(), ys.iter().map(|y| y.abs()).sum(), xs.iter().zip(ys.iter()).map(|(x, y)| (x * y).abs()).sum());
            let den = m * sxx - sx * sx;
            let mean = sx / m;
            let var = xs.iter().map(|x| (x - mean).powi(2)).sum::<f64>();
            o.set("kappa", sxx / var.max(1e-300));
            let u = KB * m * EPS;
            let (e_num_a, e_num_b, e_den) = (u * (m * axy + ax * ay), u * (sxx * ay + axy * ax), u * (m * sxx + ax * ax));
            if !(den.abs() > 4.0 * e_den) {
                return o.discard("abscissae too clustered for the normal equations in double precision");
            }
            let da = (e_num_a + a.abs() * e_den) / den.abs();
            let db = (e_num_b + b.abs() * e_den) / den.abs();
            let _ = (sy, sxy);
            // normal equations: residuals orthogonal to 1 and x
            let r: Vec<f64> = (0..n).map(|i| ys[i] - (a * xs[i] + b)).collect();
            let (r1, rx): (f64, f64) = (r.iter().sum(), r.iter().zip(xs.iter()).map(|(r, x)| r * x).sum());
            let floor1 = u * (ay + a.abs() * ax + m * b.abs());
            let allow1 = da * ax + db * m + floor1;
            let allowx = da * sxx + db * ax + u * (axy + a.abs() * sxx + b.abs() * ax);
            o.set("ratio_normal", (r1.abs() / allow1).max(rx.abs() / allowx));
            if !(r1.abs() <= allow1 && rx.abs() <= allowx) {
                return o.fail(format!("residuals are not orthogonal to 1 and x: sum r = {r1:e} (allowed {allow1:e}), sum r x = {rx:e} (allowed {allowx:e})"));
            }
            if *noise_amp == 0.0 {
                o.label("exactly-linear");
                // the data themselves are rounded: y_i carries eps |y_i|, which moves the exact fit by at most
                // eps sum|y| sum|x - mean| / var (slope) and that times |mean| + eps max|y| (intercept)
                let dy = 2.0 * EPS * ay * xs.iter().map(|x| (x - mean).abs()).sum::<f64>() / var.max(1e-300) / m * m.sqrt();
                let (ea, eb) = ((a - slope).abs(), (b - icpt).abs());
                let (ala, alb) = (da + dy, db + dy * mean.abs() + 2.0 * EPS * ay / m * 4.0);
                o.set("ratio_exact", (ea / ala).max(eb / alb));
                if !(ea <= ala && eb <= alb) {
                    return o.fail(format!("exactly linear data not reproduced: slope {a:e} vs {slope:e} (allowed {ala:e}), intercept {b:e} vs {icpt:e} (allowed {alb:e})"));
                }
            }
            // order independence
            let perm = lcg_perm(n, *perm_seed);
            let (px, py): (Vec<f64>, Vec<f64>) = (perm.iter().map(|&i| xs[i]).collect(), perm.iter().map(|&i| ys[i]).collect());
            if let Ok(Ok(q)) = guard(|| linear_fit(&px, &py)) {
                let (ea, eb) = ((q.get_coefficient(1) - a).abs(), (q.get_coefficient(0) - b).abs());
                o.set("ratio_perm", (ea / (2.0 * da)).max(eb / (2.0 * db)));
                if !(ea <= 2.0 * da && eb <= 2.0 * db) {
                    return o.fail(format!("permuting the data changes the fit by {ea:e} (slope, allowed {:e}) / {eb:e} (intercept, allowed {:e})", 2.0 * da, 2.0 * db));
                }
            } else {
                return o.fail("linear_fit failed on permuted data");
            }
            o.nontrivial = *noise_amp != 0.0 || n >= 10;
            o.pass()
        }
        Case::Curve { model, nparam, xs, truth, start, noise, noise_amp, tol, damping, mult, h, fd, invalid, pscale_exp } => {
            let model = *model % 5;
            let linear = model <= 1;
            let v = if linear { (*nparam).clamp(1, 4) } else { 3 };
            let n = xs.len();
            o.label(MODEL_NAMES[model as usize]);
            o.label(if *fd { "curve_fit" } else { "curve_fit_jac" });
            // truth parameters
            let pt: Vec<f64> = match model {
                0 | 1 => truth[..v].iter().map(|t| t * 10f64.powf(*pscale_exp)).collect(),
                2 => vec![0.5 + truth[0].abs(), 0.4 * truth[1], truth[2]],
                3 => vec![1.0 + truth[0].abs(), 0.5 * truth[1], 0.6 + 0.3 * truth[2].abs()],
                _ => vec![1.0 + truth[0].abs(), 1.0 + truth[1].abs(), 0.5 * truth[2]],
            };
            let ys: Vec<f64> = (0..n).map(|i| model_eval(model, xs[i], &pt) + noise_amp * noise[i % noise.len()]).collect();
            let st: Vec<f64> = if linear { start[..v].iter().map(|t| t * 10f64.powf(*pscale_exp)).collect() } else { (0..v).map(|k| pt[k] * (1.0 + 0.2 * start[k] / 2.0)).collect() };
            // damping below 1e-4 (practically Gauss-Newton) only for the models linear in their parameters
            let damping = &(if linear { *damping } else { damping.max(1e-4) });
            if *damping < 1e-4 {
                o.label("gauss-newton-damping");
            }
            if *damping * (1.0 - 1.0 / *mult) == 1.0 {
                o.label("damping-multiplier-resonance");
            }
            if linear && *pscale_exp != 0.0 {
                o.label("large-ordinates");
                // the loop compares sums of squares to an absolute tolerance: below the resolution of the sum at the start
                // (2 tol < 8 ulp) the tolerance cannot be honoured in double precision - outside the quantified domain
                let s0: f64 = (0..n).map(|i| (ys[i] - model_eval(model, xs[i], &st)).powi(2)).sum();
                if *invalid == 0 && 2.0 * *tol <= 8.0 * EPS * s0 {
                    return o.discard("tolerance below the resolution of the initial sum of squares");
                }
            }
            let mut prm = CurveFitParams::<f64> { damping: *damping, tolerance: *tol, h: *h, damping_mult: *mult };
            let calls = Cell::new(0usize);
            if *invalid != 0 {
                o.label("invalid");
                o.nontrivial = true;
                let mut ys2 = ys.clone();
                match invalid {
                    1 => prm.tolerance = -*tol,
                    2 if *fd => prm.h = -*h,
                    3 => prm.damping = -*damping,
                    _ => {
                        ys2.pop();
                    }
                }
                return match call_dispatch(v, model, xs, &ys2, &st, &prm, *fd, &calls) {
                    Ok(Err(_)) => o.pass(),
                    Ok(Ok(_)) => o.fail(format!("invalid input class {invalid} returned Ok")),
                    Err(c) => o.fail(format!("invalid input class {invalid}: {c:?}")),
                };
            }
            // reference solution and design conditioning
            let Some((pstar, lam, rnorm, mu)) = reference_ls(model, xs, &ys, &pt) else { return o.discard("reference Gauss-Newton failed") };
            if !(lam >= 1e-3) {
                return o.discard("design not well conditioned (lambda_min(J^T J) < 1e-3)");
            }
            if !(mu >= 1e-5) {
                return o.discard("scaled design not well conditioned (mu_min < 1e-5)");
            }
            if !linear {
                // a non-linear fit is judged only where the data pin the parameters down near the generating ones; a
                // least-squares solution far from them (flat valley of a e^{bx} + c with b ~ 0) is another problem
                let dp = pstar.iter().zip(pt.iter()).map(|(a, b)| (a - b).powi(2)).sum::<f64>().sqrt();
                let ps = 1.0 + pt.iter().map(|x| x.abs()).fold(0.0, f64::max);
                if dp > 0.1 * ps {
                    return o.discard("non-linear model: the noise moves the least-squares solution far from the generating parameters");
                }
            }
            o.set("lambda_min", lam);
            o.set("mu_min", mu);
            o.nontrivial = !linear || *noise_amp != 0.0 || v >= 3;
            if *noise_amp != 0.0 {
                o.label("noisy");
                if xs.windows(2).any(|w| w[0] == w[1]) {
                    o.label("noisy-replicated-abscissae");
                }
            }
            let res = call_dispatch(v, model, xs, &ys, &st, &prm, *fd, &calls);
            o.set("model_calls", calls.get());
            let pscale = 1.0 + pstar.iter().map(|x| x.abs()).fold(0.0, f64::max);
            // The loop stops when the residual sum of squares S changes by <= tol. The library scales the
            // damping by diag(J^T J) (Marquardt), so the slowest error mode contracts by rho = d/(mu+d),
            // mu = lambda_min(D^-1/2 J^T J D^-1/2). A change <= tol implies |J e|^2 (1-rho^2) <= tol before
            // the last step, hence |J e|^2 <= tol rho^2/(1-rho^2) <= tol (1 + d/(2 mu)) after it and
            // |e| <= sqrt(tol/lambda_min) sqrt(1 + d/(2 mu)). The damping d the iteration ends with is taken
            // from the harness's transliteration of the loop.
            let d_final = {
                let fm = move |x: f64, p: &[f64]| model_eval(model, x, p);
                let bf = Budgeted { f: &fm, calls: Cell::new(0), budget: BUDGET };
                match lm_model(&bf, xs, &ys, &st, *tol, *damping, *h, *mult, if *fd { JacMode::Diff } else { JacMode::Analytic(model) }) {
                    Ok(out) => out.damping.max(*damping),
                    Err(_) => *damping,
                }
            };
            o.set("final_damping", d_final);
            if *fd && std::env::var("C17_CALIB").is_ok() {
                // calibration aid: how would the intended central-difference loop fare against the bound?
                let fm = move |x: f64, p: &[f64]| model_eval(model, x, p);
                let bf = Budgeted { f: &fm, calls: Cell::new(0), budget: BUDGET };
                if let Ok(LmOut { params: q, .. }) = lm_model(&bf, xs, &ys, &st, *tol, *damping, *h, *mult, JacMode::Diff) {
                    let e = q.iter().zip(pstar.iter()).map(|(a, b)| (a - b).powi(2)).sum::<f64>().sqrt();
                    let base = (tol / lam).sqrt() * (1.0 + d_final / (2.0 * mu)).sqrt();
                    let fdterm = h * h * rnorm * pscale / lam.sqrt();
                    o.set("ratio_calib_fd_base", e / (10.0 * base + 1e-9 * pscale + 20.0 * fdterm));
                    if e > 10.0 * base + 1e-9 * pscale {
                        o.set("ratio_calib_fd_excess_over_fdterm", (e - 10.0 * base) / fdterm.max(1e-300));
                    }
                } else {
                    o.set("ratio_calib_fd_model_failed", 1.0);
                }
            }
            let dfac = (1.0 + d_final / (2.0 * mu)).sqrt();
            let mut bound = 10.0 * (tol / lam).sqrt() * dfac + 1e-9 * pscale;
            if !linear && bound > 0.1 * pscale {
                // the estimate above linearises the model around the solution; for a non-linear model it says nothing
                // once it allows a tenth of the parameter scale (nearly degenerate designs such as a e^{bx} + c, b ~ 0)
                return o.discard("non-linear model: stopping-rule bound beyond the validity of the local analysis");
            }
            if *fd {
                // finite-difference Jacobian: O(h^2) error biases the stationary point on noisy data
                bound += 40.0 * h * h * rnorm * pscale / lam.sqrt();
            }
            let verdict: Result<(), String> = match &res {
                Err(Caught::Budget(_)) => Err(format!("does not terminate: more than {BUDGET} model evaluations")),
                Err(Caught::Panic(m)) => Err(format!("panicked: {m}")),
                Ok(Err(e)) => Err(format!("returned Err({e}) on a well-conditioned problem")),
                Ok(Ok(p)) => {
                    let e = p.iter().zip(pstar.iter()).map(|(a, b)| (a - b).powi(2)).sum::<f64>().sqrt();
                    if p.iter().all(|x| x.is_finite()) && e <= bound {
                        o.set(if *fd { "ratio_err_fd" } else { "ratio_err_jac" }, e / bound);
                        o.set(if *fd { "ratio_raw_fd" } else { "ratio_raw_jac" }, e / ((tol / lam).sqrt() * dfac));
                        Ok(())
                    } else {
                        Err(format!("returned parameters {p:?}, least-squares solution {pstar:?}: distance {e:e} > {bound:e}"))
                    }
                }
            };
            match verdict {
                Ok(()) => o.pass(),
                Err(msg) => {
                    if *fd {
                        // K1: does the outcome coincide with the bug-compatible model (Jacobian = sum)?
                        let fm = move |x: f64, p: &[f64]| model_eval(model, x, p);
                        let bf = Budgeted { f: &fm, calls: Cell::new(0), budget: BUDGET };
                        let sim = lm_model(&bf, xs, &ys, &st, *tol, *damping, *h, *mult, JacMode::Sum);
                        let same = match (&res, &sim) {
                            (Err(Caught::Budget(_)), Err(None)) => true,
                            (Ok(Err(_)), Err(Some(_))) => true,
                            (Ok(Ok(p)), Ok(LmOut { params: q, .. })) => p.iter().zip(q.iter()).all(|(a, b)| (a - b).abs() <= 1e-9 * (1.0 + a.abs().max(b.abs())) || (a.is_nan() && b.is_nan())),
                            _ => false,
                        };
                        // and the intended central difference would have met the bound?
                        let bf2 = Budgeted { f: &fm, calls: Cell::new(0), budget: BUDGET };
                        let fixed = lm_model(&bf2, xs, &ys, &st, *tol, *damping, *h, *mult, JacMode::Diff);
                        let fixed_ok = match &fixed {
                            Ok(LmOut { params: q, .. }) => q.iter().zip(pstar.iter()).map(|(a, b)| (a - b).powi(2)).sum::<f64>().sqrt() <= bound,
                            _ => false,
                        };
                        o.set("matches_bug_model", same);
                        o.set("central_difference_model_ok", fixed_ok);
                        if same {
                            return o.fail_sig(msg, "curve_fit:fd-jacobian-sum:outcome-matches-bug-model");
                        }
                    }
                    if !*fd {
                        // K5: the start-up step is computed on a copy of the parameters and discarded, while its residuals
                        // are kept; when damping (1 - 1/mult) ~ 1 the reduced-damping candidate of the first main iteration
                        // lands (almost) on the discarded start-up point, the sum of squares "does not change", and the
                        // loop exits after one iteration whatever the tolerance.
                        let fm = move |x: f64, p: &[f64]| model_eval(model, x, p);
                        let bf = Budgeted { f: &fm, calls: Cell::new(0), budget: BUDGET };
                        let sim = lm_model(&bf, xs, &ys, &st, *tol, *damping, *h, *mult, JacMode::Analytic(model));
                        let resonance = (*damping * (1.0 - 1.0 / *mult) - 1.0).abs() <= 0.1;
                        if let (Ok(Ok(p)), Ok(out)) = (&res, &sim) {
                            let same = p.iter().zip(out.params.iter()).all(|(a, b)| (a - b).abs() <= 1e-9 * (1.0 + a.abs().max(b.abs())));
                            o.set("loop_iterations", out.iters);
                            if same && out.iters == 1 && resonance {
                                return o.fail_sig(msg, "curve_fit_jac:first-iteration-exit:damping-resonance");
                            }
                        }
                    }
                    if !*fd && !linear {
                        // K3: the main loop of curve_fit_jac has no step rejection. Does the failing outcome coincide with
                        // the transliterated loop, did that loop accept a step that raised the sum of squares, and does a
                        // safeguarded iteration from the same start and damping meet the bound?
                        let fm = move |x: f64, p: &[f64]| model_eval(model, x, p);
                        let bf = Budgeted { f: &fm, calls: Cell::new(0), budget: BUDGET };
                        let sim = lm_model(&bf, xs, &ys, &st, *tol, *damping, *h, *mult, JacMode::Analytic(model));
                        let (same, uphill) = match (&res, &sim) {
                            (Err(Caught::Budget(_)), Err(None)) => (true, 1),
                            (Ok(Err(_)), Err(Some(_))) => (true, 1),
                            (Ok(Ok(p)), Ok(out)) => (p.iter().zip(out.params.iter()).all(|(a, b)| (a - b).abs() <= 1e-9 * (1.0 + a.abs().max(b.abs())) || (a.is_nan() && b.is_nan())), out.uphill),
                            _ => (false, 0),
                        };
                        let safeguarded_ok = match lm_safeguarded(model, xs, &ys, &st, *damping, *mult) {
                            Some(q) => q.iter().zip(pstar.iter()).map(|(a, b)| (a - b).powi(2)).sum::<f64>().sqrt() <= bound,
                            None => false,
                        };
                        o.set("matches_loop_model", same);
                        o.set("uphill_steps_accepted", uphill);
                        o.set("safeguarded_iteration_ok", safeguarded_ok);
                        if same && uphill > 0 && safeguarded_ok {
                            return o.fail_sig(msg, "curve_fit_jac:uphill-step-accepted:outcome-matches-loop-model");
                        }
                    }
                    o.fail(msg)
                }
            }
        }
    }
}

fn xs_strategy(lo: usize, hi: usize) -> BoxedStrategy<Vec<f64>> {
    // spread abscissae: stratified over [-2,2] plus jitter, so that designs are well conditioned
    // a third of the designs are snapped to a grid of width 0.25, 0.5 or 1: replicated measurements at the same abscissa
    (lo..=hi, proptest::collection::vec(gen::fl(0.0, 1.0), hi), prop_oneof![4 => Just(0.0), 1 => Just(0.25), 1 => Just(0.5), 1 => Just(1.0)])
        .prop_map(|(n, j, snap)| (0..n).map(|i| -2.0 + 4.0 * (i as f64 + j[i]) / n as f64).map(|x: f64| if snap > 0.0 { (x / snap).round() * snap } else { x }).collect())
        .boxed()
}

fn strategy(_t: Tier) -> BoxedStrategy<Case> {
    // a seventh of the designs: abscissae about the origin scaled by 10^[-9,6] (micro-units, large units), the slope scaled
    // inversely so that the data are those of the unscaled problem
    let place = (prop_oneof![3 => Just((0.0, 0.0)), 2 => (prop_oneof![Just(10.0), Just(-50.0), Just(2010.0), gen::fl(-3000.0, 3000.0)], gen::fl(-1.5, 1.0)), 1 => (Just(0.0), gen::fl(-9.0, 6.0))], prop_oneof![4 => Just(0.0), 1 => gen::fl(-16.0, 6.0)])
        .prop_map(|((o, s), y)| (o, s, y));
    // one design in six is a long series of 61-200 points
    let linear = (prop_oneof![5 => xs_strategy(3, 60), 1 => xs_strategy(61, 200)], gen::fl(-3.0, 3.0), gen::fl(-3.0, 3.0), proptest::collection::vec(gen::fl(-1.0, 1.0), 60), prop_oneof![1 => Just(0.0), 1 => gen::logu(-4.0, -1.0)], any::<u64>(), prop_oneof![15 => Just(false), 1 => Just(true)], place)
        .prop_map(|(xs, slope, icpt, noise, noise_amp, perm_seed, mismatch, (offset, spread_exp, yscale_exp))| Case::Linear { xs, slope, icpt, noise, noise_amp, perm_seed, mismatch, offset, spread_exp, yscale_exp });
    let curve = (
        (0u8..5, 1usize..=4, xs_strategy(6, 60), prop_oneof![3 => Just(0.0), 1 => gen::fl(0.3, 1.5)]),
        (proptest::collection::vec(gen::fl(-2.0, 2.0), 4), proptest::collection::vec(gen::fl(-2.0, 2.0), 4), proptest::collection::vec(gen::fl(-1.0, 1.0), 60), prop_oneof![1 => Just(0.0), 1 => gen::logu(-4.0, -2.0)]),
        (
            gen::logu(-12.0, -6.0),
            // one case in ten: the values a user types - the default pair (2, 2) and other short decimals / dyadic values
            prop_oneof![
                9 => (prop_oneof![6 => gen::logu(-2.0, 1.0), 2 => gen::logu(-4.0, -2.0), 1 => gen::logu(-10.0, -4.0)], gen::fl(1.1, 5.0)),
                1 => (prop_oneof![Just(2.0), Just(1.0), Just(3.0), Just(1.5), Just(5.0), Just(4.0), Just(10.0), Just(0.5), Just(0.1), Just(0.01)], prop_oneof![Just(2.0), Just(1.5), Just(3.0), Just(1.25), Just(4.0), Just(5.0), Just(10.0), Just(4.0 / 3.0), Just(1.1)]),
            ],
            gen::logu(-4.0, -1.0),
            any::<bool>(),
            prop_oneof![12 => Just(0u8), 1 => 1u8..=4],
        ),
    )
        .prop_map(|((model, nparam, xs, pscale_exp), (truth, start, noise, noise_amp), (tol, (damping, mult), h, fd, invalid))| Case::Curve {
            pscale_exp: if model % 5 <= 1 { pscale_exp } else { 0.0 }, model, nparam, xs, truth, start, noise, noise_amp, tol, damping, mult, h, fd, invalid });
    let zc = || (gen::fl(-2.0, 2.0), gen::fl(-2.0, 2.0));
    let ccurve = (
        (0u8..2, 1usize..=4, xs_strategy(6, 40)),
        (proptest::collection::vec(zc(), 4), proptest::collection::vec(zc(), 4), proptest::collection::vec((gen::fl(-1.0, 1.0), gen::fl(-1.0, 1.0)), 40), prop_oneof![1 => Just(0.0), 1 => gen::logu(-4.0, -2.0)]),
        (gen::logu(-12.0, -6.0), gen::logu(-3.0, 1.0), gen::fl(1.1, 5.0), prop_oneof![2 => Just(0u8), 1 => 1u8..=3]),
    )
        .prop_map(|((basis, nparam, xs), (truth, start, noise, noise_amp), (tol, damping, mult, phase_lock))| Case::CurveComplex { basis, nparam, xs, truth, start, noise, noise_amp, tol, damping, mult, phase_lock });
    let zl = || (gen::fl(-2.0, 2.0), gen::fl(-2.0, 2.0));
    let clinear = (proptest::collection::vec(zl(), 3..=30), zl(), zl()).prop_map(|(xs, slope, icpt)| Case::LinearComplex { xs, slope, icpt });
    prop_oneof![6 => linear, 18 => curve, 2 => ccurve, 1 => clinear].boxed()
}

pub fn run(opts: &Opts) -> i32 {
    let mut spec = Spec::new("C17", strategy, run_case);
    spec.cases = opts.tier.pick(30_000, 300_000);
    spec.essential = vec![("linear_fit", 0.1), ("curve_fit_jac", 0.2), ("curve_fit", 0.2), ("noisy", 0.2), ("invalid", 0.03), ("gaussian", 0.05), ("logistic", 0.05), ("exponential", 0.05), ("noisy-replicated-abscissae", 0.05), ("curve_fit_jac-complex-data", 0.04)];
    spec.max_discard_frac = 0.2;
    spec.rule = "generated: linear_fit on 3-60 (one design in six: 61-200) stratified abscissae in [-2,2] (a third of all designs snapped to a grid of width 0.25/0.5/1, i.e. with replicated abscissae), exactly linear or noisy (10^[-4,-1]), permuted order, mismatched lengths (one ordinate short, one too many, one abscissa short), two fifths of the designs moved to offset + 10^[-1.5,1] x (offsets 10, -50, 2010 or U(-3000,3000): data far from the origin relative to their spread; allowances scale with kappa = sum x^2 / sum (x-mean)^2), a seventh scaled about the origin by 10^[-9,6] with the slope scaled inversely (micro-units, large units), a fifth with all ordinates times 10^[-16,6]; curve_fit_jac / curve_fit on 6-60 abscissae with models linear in 1-4 parameters (polynomial and trigonometric bases, arbitrary starts in [-2,2]; a quarter of them with truth and start times 10^[0.3,1.5]: sums of squares far above 1 under the absolute tolerance, discarded when 2 tol is below 8 ulp of the initial sum) and non-linear models a e^{bx}+c, gaussian, logistic (starts within 20% of the truth), noise 0 or 10^[-4,-2], tolerance 10^[-12,-6], damping 10^[-2,1] (two ninths of the cases 10^[-4,-2], one ninth 10^[-10,-4] for the models linear in their parameters: practically Gauss-Newton), multiplier [1.1,5] (one case in ten: typed values - damping 2, 1, 3, 1.5, 5, 4, 10, 0.5, 0.1, 0.01 with multiplier 2, 1.5, 3, 1.25, 4, 5, 10, 4/3, 1.1, including the default pair (2,2) and the other pairs with damping (1 - 1/mult) = 1), h 10^[-4,-1]; designs with lambda_min(J^T J) < 1e-3, non-linear designs whose stopping-rule bound exceeds a tenth of the parameter scale, and non-linear designs whose least-squares solution lies further than a tenth of the parameter scale from the generating parameters, are discarded (counted); invalid: negative tolerance / h / damping, mismatched lengths; one case in thirteen is curve_fit_jac on complex data (model linear in 1-4 complex parameters, complex noise; a third of them noise-free with a start that differs from the truth by a common complex phase 1+i, 1-i or i times a real vector) against the complex normal equations; linear_fit on exactly linear complex data over complex abscissae (reproduction). Oracle: normal equations, exact-linear reproduction, permutation invariance; model-call budget (termination); distance to the reference least-squares solution (harness Gauss-Newton with analytic Jacobian) <= 10 sqrt(tol/lambda_min) sqrt(1 + d/(2 mu_min)) + 1e-9 (d = final damping from the transliterated loop, mu_min = smallest eigenvalue of the diagonally scaled Gauss-Newton matrix) (+ 40 h^2 |r| term for finite differences); a failing curve_fit outcome that coincides with the harness's bug-compatible transliteration of the Levenberg-Marquardt loop (Jacobian = sum) is the recorded finding K1; a failing curve_fit_jac outcome on a non-linear model that coincides with the transliterated loop, in which that loop accepted a step raising the sum of squares, and which a safeguarded Levenberg-Marquardt iteration from the same start and damping solves, is the recorded finding K3; one that coincides with the transliterated loop, in which that loop exited after its first main iteration with damping (1 - 1/mult) within 0.1 of 1, is the recorded finding K5. Non-trivial = non-linear model, noisy data or >= 3 parameters (linear_fit: noisy or >= 10 points). Distinct = distinct case JSON.".into();
    spec.assumptions = vec!["reference least-squares solution by Gauss-Newton from the generating parameters".into(), "bug-compatible LM transliteration tracks the implementation bit-for-bit (same nalgebra calls)".into()];
    spec.max_shrink_iters = 400;
    run_spec(spec, opts)
}

//! C05 — adaptive IVP solvers finish smooth problems with order-appropriate work.

use crate::c01::{check_path, tslack};
use crate::drive::*;
use crate::problems::*;
use bverif::engine::*;
use proptest::prelude::*;
use serde::{Deserialize, Serialize};
use std::cell::RefCell;
use std::rc::Rc;

#[derive(Clone, Debug, Serialize, Deserialize)]
pub struct Case {
    pub solver: SolverKind,
    pub problem: Problem,
    pub y0: Vec<f64>,
    pub t0: f64,
    /// Lipschitz constant x maximum step, in [0.05, 0.5]
    pub ldt: f64,
    /// dt_min = dt_max * 10^(-min_exp), min_exp >= 6
    pub min_exp: f64,
    pub tol: f64,
    /// requested interval length (time units); shortened so that the expected work stays bounded
    pub tlen: f64,
    pub at_rest: bool,
}

pub fn work_unit(solver: SolverKind, t: f64, l: f64, tol: f64, dt_max: f64) -> f64 {
    t * l * tol.powf(-1.0 / solver.est_order()) + t / dt_max
}

pub fn run_case(case: &Case) -> Outcome {
    let mut o = Obs::new();
    let Some(cp) = case.problem.compile() else { return o.discard("degenerate problem") };
    if case.y0.len() != cp.dim {
        return o.discard("dimension mismatch");
    }
    let solver = case.solver;
    // time-scale of the problem: Lipschitz constant or forcing frequency, whichever is faster
    let l = cp.rate;
    let dt_max = case.ldt / l;
    let dt_min = dt_max * 10f64.powf(-case.min_exp);
    let p = solver.est_order();
    let cap = o_cap();
    let t_len = case.tlen.min(cap / (l * case.tol.powf(-1.0 / p))).max(3.0 * dt_max);
    let cfg = Cfg { solver, t0: case.t0, t_end: case.t0 + t_len, dt_min, dt_max, tol: case.tol };
    o.label(solver.name());
    o.label(cp.p.class());
    if case.at_rest {
        o.label("at-rest-or-relaxing");
    }
    let unit = work_unit(solver, t_len, l, case.tol, dt_max);
    // fixed factor per method, >= 12x the worst ratio measured on the repaired tree over 3e5 cases
    // (rk45 5.1, rk23 4.3, adams5 5.8, adams3 1.7, bdf6 15.8, bdf2 63.5)
    let default_mult = match solver {
        SolverKind::BDF6 => 300.0,
        SolverKind::BDF2 => 800.0,
        _ => 100.0,
    };
    let mult: f64 = std::env::var("C05_BUDGET_MULT").ok().and_then(|s| s.parse().ok()).unwrap_or(default_mult);
    let budget = (mult * unit + 400.0) as usize;
    o.set("budget", budget);
    o.set("t_len", t_len);
    o.set("lipschitz", l);
    let probe = Rc::new(RefCell::new(Probe { budget, ..Default::default() }));
    let rhs = |t: f64, y: &[f64], out: &mut [f64]| cp.f(t, y, out);
    let run = run_real(solver, false, cp.dim, &cfg.calls(), &case.y0, probe.clone(), &rhs, budget + 10, 1);
    let calls = probe.borrow().calls;
    o.set("derivative_calls", calls);
    o.set("points", run.pts.len());
    o.nontrivial = true;
    match &run.end {
        End::Done => {}
        End::Failed(ErrKind::UserError(_)) if probe.borrow().budget_hit => {
            return o.fail(format!("loops / too much work: more than {budget} derivative evaluations ({mult} x (T L tol^(-1/p) + T/dt_max) + 400 with T = {t_len:.3}, L = {l:.3}, tol = {:e}, p = {p})", case.tol));
        }
        End::Failed(k) => return o.fail(format!("smooth non-stiff problem with dt_min = 1e-{:.0} dt_max: the solve reported {k:?} after {} points", case.min_exp, run.pts.len())),
        End::Build(i, k) => return o.fail(format!("valid configuration rejected at builder call {i}: {k:?}")),
        End::TooManyPoints => return o.fail(format!("more than {budget} points yielded")),
        End::Budget => return o.fail("budget"),
        End::Panic(m) => return o.fail(format!("panicked: {m}")),
    }
    if let Err(m) = check_path(solver, &cfg, 0.0, cp.dim, &case.y0, &run.pts, true) {
        return o.fail(format!("stops early or malformed path: {m}"));
    }
    // lower sanity bound: the work cannot be below one evaluation per maximal step
    if (calls as f64) < t_len / dt_max * 0.999 - 1.0 {
        return o.fail(format!("only {calls} derivative evaluations for {:.1} maximal steps", t_len / dt_max));
    }
    let _ = tslack;
    o.set(&format!("ratio_work_{}", solver.name()), calls as f64 / (mult * unit + 400.0));
    o.set(&format!("ratio_workunit_{}", solver.name()), calls as f64 / unit);
    if solver.is_bdf() {
        o.set(&format!("ratio_workunit_{}_d{}", solver.name(), cp.dim), calls as f64 / unit);
    }
    // estimator-limited?
    let mut prev = cfg.t0;
    let mut limited = false;
    for (t, _) in &run.pts {
        if t - prev < dt_max * 0.98 && *t < cfg.t_end - 1e-12 {
            limited = true;
        }
        prev = *t;
    }
    if limited {
        o.label("estimator-limited");
    }
    o.nontrivial = limited || case.at_rest;
    o.pass()
}

fn o_cap() -> f64 {
    std::env::var("C05_WORK_CAP").ok().and_then(|s| s.parse().ok()).unwrap_or(2.0e4)
}

fn strategy(_t: Tier) -> BoxedStrategy<Case> {
    let prob = prop_oneof![
        3 => problem_lin(false).prop_map(|p| (p, false)),
        2 => problem_lin(true).prop_map(|p| (p, true)),
        2 => problem_forced().prop_map(|p| (p, false)),
        2 => problem_sep().prop_map(|p| (p, false)),
        3 => problem_generic().prop_map(|p| (p, false)),
    ];
    (proptest::sample::select(&ADAPTIVE[..]), prob, prop_oneof![1 => Just(0.0), 3 => gen::fl(-2.0, 2.0)], gen::fl(0.05, 0.5), gen::fl(6.0, 10.0), gen::logu(-9.0, -3.0), gen::fl(1.0, 10.0))
        .prop_map(|(solver, ((problem, y0), at_rest), t0, ldt, min_exp, tol, tlen)| Case { solver, problem, y0, t0, ldt, min_exp, tol, tlen, at_rest })
        .boxed()
}

pub fn run(opts: &Opts) -> i32 {
    let mut spec = Spec::new("C05", strategy, run_case);
    // the crate's own doc examples: y' = y and y' = -y on [0,10], every solver
    for solver in ADAPTIVE {
        for a in [1.0 / 3.0, -1.0] {
            spec.enumerated.push(Case { solver, problem: Problem::Lin { blocks: vec![(a, 0.0)], mix: vec![0.0; 16], center: vec![0.0] }, y0: vec![1.0], t0: 0.0, ldt: 0.1 * a.abs(), min_exp: 6.0, tol: 1e-5, tlen: 10.0, at_rest: false });
        }
        // a solution exactly at rest
        spec.enumerated.push(Case { solver, problem: Problem::Lin { blocks: vec![(-1.0, 0.0), (-0.5, 1.0)], mix: vec![0.2; 16], center: vec![1.0, -2.0, 0.5] }, y0: vec![1.0, -2.0, 0.5], t0: 0.0, ldt: 0.2, min_exp: 7.0, tol: 1e-6, tlen: 5.0, at_rest: true });
    }
    spec.cases = opts.tier.pick(12_000, 400_000);
    spec.essential = vec![("estimator-limited", 0.2), ("at-rest-or-relaxing", 0.1), ("generic", 0.1), ("bdf2", 0.08), ("rk23", 0.08)];
    spec.rule = "generated: six adaptive solvers x problem family P incl. solutions at rest / relaxing to a steady state x tolerance 10^[-9,-3] x L dt_max in [0.05,0.5] (L = max of the Lipschitz constant and the forcing frequencies) x dt_min = dt_max 10^-[6,10] x interval length 1-10 (shortened so that T L tol^(-1/p) <= 2e4); the user function counts its calls and enforces the hard budget K (T L tol^(-1/p) + T/dt_max) + 400 (p = 4,2,4,2,6,2 for RK45, RK23, Adams5, Adams3, BDF6, BDF2; K = 100, 100, 100, 100, 300, 800). Oracle: the solve returns without error, ends at the ending time with a C01-valid path, and stays within the budget; at least one evaluation per maximal step. Non-trivial = estimator-limited path (a step below 0.98 dt_max) or the at-rest/relaxing class. Distinct = distinct case JSON.".into();
    spec.max_shrink_iters = 300;
    run_spec(spec, opts)
}

//! C05 — adaptive IVP solvers finish smooth problems with order-appropriate work.

use crate::c01::{check_path, tslack};
use crate::drive::*;
use crate::problems::*;
use bverif::engine::*;
use proptest::prelude::*;
use serde::{Deserialize, Serialize};
use std::cell::RefCell;
use std::rc::Rc;

#[derive(Clone, Debug, Serialize, Deserialize)]
pub struct Case {
    pub solver: SolverKind,
    pub problem: Problem,
    pub y0: Vec<f64>,
    pub t0: f64,
    /// Lipschitz constant x maximum step, in [0.05, 0.5]
    pub ldt: f64,
    /// dt_min = dt_max * 10^(-min_exp), min_exp >= 6
    pub min_exp: f64,
    pub tol: f64,
    /// requested interval length (time units); shortened so that the expected work stays bounded
    pub tlen: f64,
    pub at_rest: bool,
    /// > 0: the relaxing class (all modes decay, start at distance O(1) from the steady state); the interval is
    /// relax_len / (slowest decay rate), i.e. relax_len e-foldings of the slowest mode
    #[serde(default)]
    pub relax_len: f64,
    /// non-empty: complex-valued decoupled linear problem y_k' = (a_k + i w_k) y_k, entries (a, w, Re y0, Im y0),
    /// dimension 1-2 (`problem` and `y0` are ignored)
    #[serde(default)]
    pub cplx: Vec<(f64, f64, f64, f64)>,
    /// cap-limited class (linear problem whose modes all decay): the maximum step is chosen so small that the
    /// local error at that step is below a thousandth of the tolerance, so every step should be a maximal one
    #[serde(default)]
    pub cap_limited: bool,
}

/// Order-appropriate work of a linear problem y' = A (y - c) whose solution is known: a method whose error
/// estimator has order p needs steps of about (tol / |y - c|)^(1/p) / L, never larger than dt_max, so the
/// number of steps is about the integral of max(L (|y(t) - c| / tol)^(1/p), 1/dt_max) dt (exact flow, 400 samples).
/// For |y - c| <= 1 this is at most the unit T L tol^(-1/p) + T/dt_max of the property statement.
/// Start of the tail of a relaxing solution: the earliest time after which the exact solution stays within
/// 1e-3 tol of the steady state (sampled at 400 points; None if it never does or the tail is shorter than 50
/// maximal steps). There every error estimate is far below the tolerance, so an order-appropriate controller
/// takes maximal steps.
fn tail_start(cp: &Compiled, center: &[f64], y0: &[f64], t0: f64, t_len: f64, tol: f64, dt_max: f64) -> Option<f64> {
    let n = 400;
    let h = t_len / n as f64;
    let mut start = None;
    for k in (0..=n).rev() {
        let y = cp.flow_exact(t0, y0, t0 + h * k as f64)?;
        let d = y.iter().zip(center).map(|(a, b)| (a - b) * (a - b)).sum::<f64>().sqrt();
        if d <= 1e-3 * tol {
            start = Some(t0 + h * k as f64);
        } else {
            break;
        }
    }
    let ts = start?;
    if (t0 + t_len - ts) / dt_max >= 50.0 {
        Some(ts)
    } else {
        None
    }
}

fn relaxing_work(cp: &Compiled, center: &[f64], y0: &[f64], t0: f64, t_len: f64, l: f64, tol: f64, p: f64, dt_max: f64) -> Option<f64> {
    let n = 400;
    let h = t_len / n as f64;
    let mut w = 0.0;
    for k in 0..n {
        let y = cp.flow_exact(t0, y0, t0 + h * (k as f64 + 0.5))?;
        let d = y.iter().zip(center).map(|(a, b)| (a - b) * (a - b)).sum::<f64>().sqrt();
        w += h * (l * (d.min(1.0) / tol).powf(1.0 / p)).max(1.0 / dt_max);
    }
    Some(w)
}

pub fn work_unit(solver: SolverKind, t: f64, l: f64, tol: f64, dt_max: f64) -> f64 {
    t * l * tol.powf(-1.0 / solver.est_order()) + t / dt_max
}

/// the same judgement for a complex-valued state: the field must not change the work
fn run_complex_case(case: &Case) -> Outcome {
    use num_complex::Complex64 as C64;
    let mut o = Obs::new();
    let solver = case.solver;
    let comps = case.cplx.clone();
    let d = comps.len().min(2);
    let l = comps.iter().take(d).map(|c| (c.0 * c.0 + c.1 * c.1).sqrt()).fold(0.05, f64::max);
    let dt_max = case.ldt / l;
    let dt_min = dt_max * 10f64.powf(-case.min_exp);
    let p = solver.est_order();
    let t_len = case.tlen.min(o_cap() / (l * case.tol.powf(-1.0 / p))).max(3.0 * dt_max);
    let cfg = Cfg { solver, t0: case.t0, t_end: case.t0 + t_len, dt_min, dt_max, tol: case.tol };
    o.label(solver.name());
    o.label("complex-field");
    let unit = work_unit(solver, t_len, l, case.tol, dt_max);
    let mult = match solver {
        SolverKind::BDF6 => 300.0,
        SolverKind::BDF2 => 800.0,
        _ => 100.0,
    };
    let budget = (mult * unit + 400.0) as usize;
    let probe = Rc::new(RefCell::new(Probe { budget, ..Default::default() }));
    let cc = comps.clone();
    let rhs = move |_t: f64, y: &[C64], out: &mut [C64]| {
        for k in 0..y.len() {
            out[k] = C64::new(cc[k].0, cc[k].1) * y[k];
        }
    };
    let y0: Vec<C64> = comps.iter().take(d).map(|c| C64::new(c.2, c.3)).collect();
    let run = run_complex(solver, d, &cfg.calls(), &y0, probe.clone(), &rhs, budget + 10);
    let calls = probe.borrow().calls;
    o.set("derivative_calls", calls);
    o.nontrivial = true;
    match &run.end {
        End::Done => {}
        End::Failed(ErrKind::UserError(_)) if probe.borrow().budget_hit => {
            return o.fail(format!("complex state: loops / too much work: more than {budget} derivative evaluations ({mult} x (T L tol^(-1/p) + T/dt_max) + 400 with T = {t_len:.3}, L = {l:.3}, tol = {:e}, p = {p})", case.tol));
        }
        End::Failed(k) => return o.fail(format!("complex state: smooth non-stiff problem with dt_min = 1e-{:.0} dt_max: the solve reported {k:?} after {} points", case.min_exp, run.pts.len())),
        End::Build(i, k) => return o.fail(format!("valid configuration rejected at builder call {i}: {k:?}")),
        End::TooManyPoints => return o.fail(format!("more than {budget} points yielded")),
        End::Budget => return o.fail("budget"),
        End::Panic(m) => return o.fail(format!("panicked: {m}")),
    }
    let pts: Vec<(f64, Vec<f64>)> = run.pts.iter().map(|(t, y)| (*t, y.iter().flat_map(|z| [z.re, z.im]).collect())).collect();
    let ry0: Vec<f64> = y0.iter().flat_map(|z| [z.re, z.im]).collect();
    if let Err(m) = check_path(solver, &cfg, 0.0, 2 * d, &ry0, &pts, true) {
        return o.fail(format!("complex state: stops early or malformed path: {m}"));
    }
    if (calls as f64) < t_len / dt_max * 0.999 - 1.0 {
        return o.fail(format!("only {calls} derivative evaluations for {:.1} maximal steps", t_len / dt_max));
    }
    o.set(&format!("ratio_work_complex_{}", solver.name()), calls as f64 / (mult * unit + 400.0));
    o.pass()
}

pub fn run_case(case: &Case) -> Outcome {
    if !case.cplx.is_empty() {
        return run_complex_case(case);
    }
    let mut o = Obs::new();
    let Some(cp) = case.problem.compile() else { return o.discard("degenerate problem") };
    if case.y0.len() != cp.dim {
        return o.discard("dimension mismatch");
    }
    let solver = case.solver;
    // time-scale of the problem: Lipschitz constant or forcing frequency, whichever is faster
    let l = cp.rate;
    let p = solver.est_order();
    let ldt = match (&case.problem, case.cap_limited) {
        (Problem::Lin { center, .. }, true) => {
            // |y - c| <= cond |y0 - c| for decaying modes; local error per unit step ~ (L dt)^p |y - c| L
            let d0 = case.y0.iter().zip(center).map(|(a, b)| (a - b) * (a - b)).sum::<f64>().sqrt();
            let size = (cp.cond * d0 * l).max(1e-3);
            o.label("cap-limited");
            case.ldt.min((1e-3 * case.tol / size).powf(1.0 / p)).max(1e-5)
        }
        _ => case.ldt,
    };
    let dt_max = ldt / l;
    let dt_min = dt_max * 10f64.powf(-case.min_exp);
    // the relaxing class costs far less than the unit of the statement (the steps regrow), so it may run 15x longer
    let cap = o_cap() * if case.relax_len > 0.0 { 15.0 } else { 1.0 };
    let t_len = case.tlen.min(cap / (l * case.tol.powf(-1.0 / p))).max(3.0 * dt_max);
    let t_len = if case.cap_limited { t_len.min(4000.0 * dt_max) } else { t_len };
    if case.relax_len > 0.0 {
        o.label("relaxing-long");
    }
    let cfg = Cfg { solver, t0: case.t0, t_end: case.t0 + t_len, dt_min, dt_max, tol: case.tol };
    o.label(solver.name());
    o.label(cp.p.class());
    if case.at_rest {
        o.label("at-rest-or-relaxing");
    }
    let unit = work_unit(solver, t_len, l, case.tol, dt_max);
    // fixed factor per method, >= 12x the worst ratio measured on the repaired tree over 3e5 cases
    // (rk45 5.1, rk23 4.3, adams5 5.8, adams3 1.7, bdf6 15.8, bdf2 63.5)
    let default_mult = match solver {
        SolverKind::BDF6 => 300.0,
        SolverKind::BDF2 => 800.0,
        _ => 100.0,
    };
    let mult: f64 = std::env::var("C05_BUDGET_MULT").ok().and_then(|s| s.parse().ok()).unwrap_or(default_mult);
    let budget = (mult * unit + 400.0) as usize;
    o.set("budget", budget);
    o.set("t_len", t_len);
    o.set("lipschitz", l);
    let probe = Rc::new(RefCell::new(Probe { budget, ..Default::default() }));
    let tail = match (&case.problem, case.relax_len > 0.0) {
        (Problem::Lin { center, .. }, true) => tail_start(&cp, center, &case.y0, case.t0, t_len, case.tol, dt_max),
        _ => None,
    };
    let tail_calls = std::cell::Cell::new(0usize);
    let rhs = |t: f64, y: &[f64], out: &mut [f64]| {
        if let Some(ts) = tail {
            if t > ts {
                tail_calls.set(tail_calls.get() + 1);
            }
        }
        cp.f(t, y, out)
    };
    let run = run_real(solver, false, cp.dim, &cfg.calls(), &case.y0, probe.clone(), &rhs, budget + 10, 1);
    let calls = probe.borrow().calls;
    o.set("derivative_calls", calls);
    o.set("points", run.pts.len());
    o.nontrivial = true;
    match &run.end {
        End::Done => {}
        End::Failed(ErrKind::UserError(_)) if probe.borrow().budget_hit => {
            return o.fail(format!("loops / too much work: more than {budget} derivative evaluations ({mult} x (T L tol^(-1/p) + T/dt_max) + 400 with T = {t_len:.3}, L = {l:.3}, tol = {:e}, p = {p})", case.tol));
        }
        End::Failed(k) => return o.fail(format!("smooth non-stiff problem with dt_min = 1e-{:.0} dt_max: the solve reported {k:?} after {} points", case.min_exp, run.pts.len())),
        End::Build(i, k) => return o.fail(format!("valid configuration rejected at builder call {i}: {k:?}")),
        End::TooManyPoints => return o.fail(format!("more than {budget} points yielded")),
        End::Budget => return o.fail("budget"),
        End::Panic(m) => return o.fail(format!("panicked: {m}")),
    }
    if let Err(m) = check_path(solver, &cfg, 0.0, cp.dim, &case.y0, &run.pts, true) {
        return o.fail(format!("stops early or malformed path: {m}"));
    }
    // lower sanity bound: the work cannot be below one evaluation per maximal step
    if (calls as f64) < t_len / dt_max * 0.999 - 1.0 {
        return o.fail(format!("only {calls} derivative evaluations for {:.1} maximal steps", t_len / dt_max));
    }
    let _ = tslack;
    o.set(&format!("ratio_work_{}", solver.name()), calls as f64 / (mult * unit + 400.0));
    o.set(&format!("ratio_workunit_{}", solver.name()), calls as f64 / unit);
    if solver.is_bdf() {
        o.set(&format!("ratio_workunit_{}_d{}", solver.name(), cp.dim), calls as f64 / unit);
    }
    if let (true, Problem::Lin { center, .. }) = (case.relax_len > 0.0, &case.problem) {
        let Some(w) = relaxing_work(&cp, center, &case.y0, case.t0, t_len, l, case.tol, p, dt_max) else { return o.discard("no exact flow") };
        o.set("relaxing_work", w);
        o.set("relax_over_literal", w / unit);
        // fixed factor per method, 10x the worst ratio measured on the repaired tree over 7e4 relaxing cases
        // (rk45 5.98, rk23 3.91, adams5 3.65, adams3 2.94, bdf6 9.7, bdf2 29.4: the evaluations per maximal step)
        let krel = match solver {
            SolverKind::RK45 => 60.0,
            SolverKind::RK23 => 40.0,
            SolverKind::Adams5 => 40.0,
            SolverKind::Adams3 => 30.0,
            SolverKind::BDF6 => 100.0,
            SolverKind::BDF2 => 300.0,
            _ => 100.0,
        };
        let allowed = krel * (w + 50.0);
        o.set(&format!("ratio_relaxwork_{}", solver.name()), calls as f64 / allowed);
        if calls as f64 > allowed {
            return o.fail(format!(
                "solution relaxing to a steady state over {:.0} e-foldings: {calls} derivative evaluations, more than {krel} x the order-appropriate work {w:.0} (integral of max(L (|y - y*|/tol)^(1/p), 1/dt_max) dt = {:.3} x (T L tol^(-1/p) + T/dt_max); T = {t_len:.2}, L = {l:.3}, tol = {:e}, p = {p}, dt_max = {dt_max:.4})",
                case.relax_len,
                w / unit,
                case.tol
            ));
        }
    }
    if case.cap_limited {
        // every step should be a maximal one: a fixed number of evaluations per maximal step. 3x the measured counts
        // (rk45 5.9, rk23 4.0, adams5 3.6, adams3 3.0, bdf6 7.5, bdf2 10.3) plus a constant for start-up and regrowth
        let steps = t_len / dt_max;
        let kcap = match solver {
            SolverKind::RK45 => 18.0,
            SolverKind::RK23 => 12.0,
            SolverKind::Adams5 => 12.0,
            SolverKind::Adams3 => 9.0,
            SolverKind::BDF6 => 23.0,
            SolverKind::BDF2 => 33.0,
            _ => 33.0,
        };
        let allowed = kcap * steps + 400.0;
        o.set(&format!("ratio_capwork_evals_per_maxstep_{}", solver.name()), calls as f64 / (steps + 40.0) / kcap);
        o.set(&format!("ratio_capwork_{}", solver.name()), calls as f64 / allowed);
        if calls as f64 > allowed {
            return o.fail(format!(
                "{}: the maximum step {dt_max:.3e} keeps the local error below a thousandth of the tolerance {:e}, yet {steps:.0} maximal steps took {calls} derivative evaluations (allowed {kcap} per maximal step + 400): steps are rejected or restarted although nothing limits them",
                solver.name(),
                case.tol
            ));
        }
    }
    if let Problem::Lin { center, .. } = &case.problem {
        if case.relax_len == 0.0 && !case.cap_limited && center.len() == case.y0.len() && center.iter().zip(case.y0.iter()).all(|(a, b)| a == b) {
            // a solution exactly at rest: every estimate is zero, so after the start-up every step is a maximal one
            o.label("exactly-at-rest");
            let steps = t_len / dt_max;
            let (kmeas, krest) = match solver {
                SolverKind::RK45 => (6.0, 18.0),
                SolverKind::RK23 => (4.0, 12.0),
                SolverKind::Adams5 => (3.7, 12.0),
                SolverKind::Adams3 => (3.0, 9.0),
                SolverKind::BDF6 => (7.1, 21.0),
                SolverKind::BDF2 => (9.6, 30.0),
                _ => (10.0, 30.0),
            };
            o.set(&format!("ratio_atrest_overhead_{}", solver.name()), (calls as f64 - kmeas * steps) / AT_REST_CONSTANT);
            let allowed = krest * steps + AT_REST_CONSTANT;
            if calls as f64 > allowed {
                return o.fail(format!(
                    "{}: solution exactly at rest, {steps:.1} maximal steps took {calls} derivative evaluations (allowed {krest} per maximal step + {AT_REST_CONSTANT}): the step does not start at / grow to the maximum although every error estimate is zero",
                    solver.name()
                ));
            }
        }
    }
    if let Some(ts) = tail {
        // the relaxed tail: maximal steps, i.e. a fixed number of evaluations per maximal step
        o.label("relaxed-tail");
        let steps = (cfg.t_end - ts) / dt_max;
        // 3x the evaluations per maximal step measured on the repaired tree over 35 000 tails (rk45 6.0, rk23 4.0,
        // adams5 3.7, adams3 3.0, bdf6 7.1, bdf2 9.6; the same to three digits in every case), plus a constant for the steps it takes to regrow and the multistep restarts
        let ktail = match solver {
            SolverKind::RK45 => 18.0,
            SolverKind::RK23 => 12.0,
            SolverKind::Adams5 => 12.0,
            SolverKind::Adams3 => 9.0,
            SolverKind::BDF6 => 21.0,
            SolverKind::BDF2 => 30.0,
            _ => 30.0,
        };
        let allowed = ktail * steps + 400.0;
        let tc = tail_calls.get() as f64;
        o.set(&format!("ratio_tailwork_{}", solver.name()), tc / allowed);
        o.set(&format!("ratio_tail_evals_per_maxstep_{}", solver.name()), tc / (steps + 40.0) / ktail);
        if tc > allowed {
            return o.fail(format!(
                "{}: after t = {ts:.3} the exact solution stays within 1e-3 tol of its steady state, yet the remaining {steps:.0} maximal steps took {tc} derivative evaluations (allowed {ktail} per maximal step + 400): the step does not regrow (tol = {:e}, dt_max = {dt_max:.4})",
                solver.name(),
                case.tol
            ));
        }
    }
    // estimator-limited?
    let mut prev = cfg.t0;
    let mut limited = false;
    for (t, _) in &run.pts {
        if t - prev < dt_max * 0.98 && *t < cfg.t_end - 1e-12 {
            limited = true;
        }
        prev = *t;
    }
    if limited {
        o.label("estimator-limited");
    }
    o.nontrivial = limited || case.at_rest;
    o.pass()
}

/// start-up and regrowth allowance of the at-rest class (3x the largest overhead measured on the repaired tree)
const AT_REST_CONSTANT: f64 = 200.0;

fn o_cap() -> f64 {
    std::env::var("C05_WORK_CAP").ok().and_then(|s| s.parse().ok()).unwrap_or(2.0e4)
}

fn strategy(_t: Tier) -> BoxedStrategy<Case> {
    let prob = prop_oneof![
        3 => problem_lin(false).prop_map(|p| (p, false)),
        2 => problem_lin(true).prop_map(|p| (p, true)),
        2 => problem_forced().prop_map(|p| (p, false)),
        2 => problem_sep().prop_map(|p| (p, false)),
        3 => problem_generic().prop_map(|p| (p, false)),
    ];
    let plain = (proptest::sample::select(&ADAPTIVE[..]), prob, prop_oneof![1 => Just(0.0), 3 => gen::fl(-2.0, 2.0)], gen::fl(0.05, 0.5), prop_oneof![6 => gen::fl(6.0, 10.0), 1 => gen::fl(10.0, 20.0), 1 => Just(100.0), 1 => Just(300.0)], gen::logu(-9.0, -3.0), gen::fl(1.0, 10.0))
        .prop_map(|(solver, ((problem, y0), at_rest), t0, ldt, min_exp, tol, tlen)| Case { solver, problem, y0, t0, ldt, min_exp, tol, tlen, at_rest, relax_len: 0.0, cplx: vec![], cap_limited: false });
    let relaxing = (proptest::sample::select(&ADAPTIVE[..]), problem_relaxing(), prop_oneof![1 => Just(0.0), 3 => gen::fl(-2.0, 2.0)], gen::fl(0.05, 0.5), gen::fl(6.0, 10.0), gen::logu(-9.0, -3.0), gen::fl(10.0, 60.0))
        .prop_map(|(solver, (problem, y0, mu), t0, ldt, min_exp, tol, relax_len)| Case { solver, problem, y0, t0, ldt, min_exp, tol, tlen: relax_len / mu, at_rest: true, relax_len, cplx: vec![], cap_limited: false });
    // a quarter of the complex components start exactly at rest (y0 = 0: every error estimate is exactly zero)
    let comp = || (gen::fl(-1.0, 0.5), gen::fl(-3.0, 3.0), prop_oneof![3 => (gen::fl(-2.0, 2.0), gen::fl(-2.0, 2.0)), 1 => Just((0.0, 0.0))]).prop_map(|(a, w, (re, im))| (a, w, re, im));
    let complex = (proptest::sample::select(&ADAPTIVE[..]), proptest::collection::vec(comp(), 1..=2), prop_oneof![1 => Just(0.0), 3 => gen::fl(-2.0, 2.0)], gen::fl(0.05, 0.5), gen::fl(6.0, 10.0), gen::logu(-9.0, -3.0), gen::fl(1.0, 10.0)).prop_map(
        |(solver, cplx, t0, ldt, min_exp, tol, tlen)| Case { solver, problem: Problem::Lin { blocks: vec![], mix: vec![], center: vec![] }, y0: vec![], t0, ldt, min_exp, tol, tlen, at_rest: false, relax_len: 0.0, cplx, cap_limited: false },
    );
    let capped = (proptest::sample::select(&ADAPTIVE[..]), problem_relaxing(), prop_oneof![1 => Just(0.0), 3 => gen::fl(-2.0, 2.0)], gen::fl(0.05, 0.5), gen::fl(6.0, 10.0), gen::logu(-9.0, -3.0), gen::fl(0.5, 3.0))
        .prop_map(|(solver, (problem, y0, mu), t0, ldt, min_exp, tol, len)| Case { solver, problem, y0, t0, ldt, min_exp, tol, tlen: len / mu, at_rest: false, relax_len: 0.0, cplx: vec![], cap_limited: true });
    prop_oneof![10 => plain, 2 => relaxing, 1 => complex, 1 => capped].boxed()
}

pub fn run(opts: &Opts) -> i32 {
    let mut spec = Spec::new("C05", strategy, run_case);
    // the crate's own doc examples: y' = y and y' = -y on [0,10], every solver
    for solver in ADAPTIVE {
        for a in [1.0 / 3.0, -1.0] {
            spec.enumerated.push(Case { solver, problem: Problem::Lin { blocks: vec![(a, 0.0)], mix: vec![0.0; 16], center: vec![0.0] }, y0: vec![1.0], t0: 0.0, ldt: 0.1 * a.abs(), min_exp: 6.0, tol: 1e-5, tlen: 10.0, at_rest: false, relax_len: 0.0, cplx: vec![], cap_limited: false });
        }
        // a solution exactly at rest
        spec.enumerated.push(Case { solver, problem: Problem::Lin { blocks: vec![(-1.0, 0.0), (-0.5, 1.0)], mix: vec![0.2; 16], center: vec![1.0, -2.0, 0.5] }, y0: vec![1.0, -2.0, 0.5], t0: 0.0, ldt: 0.2, min_exp: 7.0, tol: 1e-6, tlen: 5.0, at_rest: true, relax_len: 0.0, cplx: vec![], cap_limited: false });
    }
    spec.cases = opts.tier.pick(12_000, 400_000);
    spec.essential = vec![("estimator-limited", 0.2), ("at-rest-or-relaxing", 0.1), ("generic", 0.1), ("bdf2", 0.08), ("rk23", 0.08), ("relaxing-long", 0.1), ("complex-field", 0.05), ("relaxed-tail", 0.03), ("cap-limited", 0.04), ("exactly-at-rest", 0.015)];
    spec.rule = "generated: six adaptive solvers x problem family P incl. solutions at rest / relaxing to a steady state x tolerance 10^[-9,-3] x L dt_max in [0.05,0.5] (L = max of the Lipschitz constant and the forcing frequencies) x dt_min = dt_max 10^-[6,10] (a third of the plain cases 10^-[10,20], 1e-100 or 1e-300: a minimum step that is effectively switched off) x interval length 1-10 (shortened so that T L tol^(-1/p) <= 2e4; 3e5 for the long relaxations); the user function counts its calls and enforces the hard budget K (T L tol^(-1/p) + T/dt_max) + 400 (p = 4,2,4,2,6,2 for RK45, RK23, Adams5, Adams3, BDF6, BDF2; K = 100, 100, 100, 100, 300, 800). A sixth of the cases are long relaxations (every mode decays, start at distance O(1) from the steady state, 10-60 e-foldings of the slowest mode); for those the work is also held to K' x the integral of max(L (|y(t)-y*|/tol)^(1/p), 1/dt_max) dt along the exact solution (never more than the unit above; K' = 60, 40, 40, 30, 100, 300), and once the exact solution stays within 1e-3 tol of the steady state (tail of >= 50 maximal steps) the evaluations made at later times are held to K'' per maximal step + 400 (K'' = 18, 12, 12, 9, 21, 30: three times the measured evaluations per maximal step), i.e. the steps must regrow to the maximum once the solution has relaxed. Solutions exactly at rest are held to the same per-step counts + 200 (largest measured start-up overhead 62). One case in fourteen is cap-limited (decaying linear problem, maximum step so small that the local error at it is below tol/1000): the whole solve is held to K''' = 18, 12, 12, 9, 23, 33 evaluations per maximal step + 400. One case in thirteen is a complex-valued decoupled linear problem y_k' = (a_k + i w_k) y_k (dimension 1-2, a quarter of the components starting exactly at rest) held to the same budget. Oracle: the solve returns without error, ends at the ending time with a C01-valid path, and stays within the budget; at least one evaluation per maximal step. Non-trivial = estimator-limited path (a step below 0.98 dt_max) or the at-rest/relaxing class. Distinct = distinct case JSON.".into();
    spec.max_shrink_iters = 300;
    run_spec(spec, opts)
}

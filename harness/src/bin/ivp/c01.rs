//! C01 — IVP solution paths are ordered, gap-bounded and reach the end time.

use crate::drive::*;
use crate::methods::*;
use crate::problems::*;
use bverif::engine::*;
use proptest::prelude::*;
use serde::{Deserialize, Serialize};
use std::cell::RefCell;
use std::rc::Rc;

#[derive(Clone, Debug, Serialize, Deserialize)]
pub struct Case {
    pub solver: SolverKind,
    pub problem: Problem,
    pub y0: Vec<f64>,
    pub t0: f64,
    pub dt_max: f64,
    /// dt_min = dt_max * 10^(-min_exp)
    pub min_exp: f64,
    /// interval length in units of the first trial step dt0 = (dt_max + dt_min)/2
    pub k: f64,
    /// 0 boundary sweep, 1 short, 2 long
    pub kclass: u8,
    pub tol: f64,
    /// recentre the tolerance on the reference error estimate of the first trial step (forces rejections)
    pub recentre: Option<f64>,
    /// Euler only: call both with_minimum_dt and with_maximum_dt (the step is their running average)
    pub euler_both: bool,
    /// build through new_dyn(dim) with a dynamically sized state instead of new()
    #[serde(default)]
    pub dynamic: bool,
}

pub const DERIV_BUDGET: usize = 4_000_000;
pub const MAX_POINTS: usize = 1_000_000;

/// time slack of soundness rule 3.2
pub fn tslack(t0: f64, t_end: f64) -> f64 {
    16.0 * EPS * t0.abs().max(t_end.abs())
}

/// reference error estimate of the first trial step (used only to place the tolerance near it)
pub fn first_estimate(solver: SolverKind, cp: &Compiled, t0: f64, y0: &[f64], h: f64) -> Option<f64> {
    let f = |t: f64, y: &[f64]| cp.fv(t, y);
    match solver {
        SolverKind::RK45 => Some(rkf45(&f, t0, y0, h).est),
        SolverKind::RK23 => Some(bs23(&f, t0, y0, h).est),
        SolverKind::Adams5 | SolverKind::Adams3 => {
            let s = solver.startup_steps();
            let mut pts = vec![];
            let (mut t, mut y) = (t0, y0.to_vec());
            for _ in 0..s {
                y = rk4(&f, t, &y, h).0;
                t += h;
                pts.push((t, y.clone()));
            }
            let ab = ab_weights(s);
            let am = am_weights(s);
            let fs: Vec<Vec<f64>> = pts.iter().rev().map(|(t, y)| f(*t, y)).collect();
            let mut pred = y.clone();
            for (w, fv) in ab.iter().zip(fs.iter()) {
                for q in 0..pred.len() {
                    pred[q] += h * w * fv[q];
                }
            }
            let fp = f(t + h, &pred);
            let mut corr = y.clone();
            for q in 0..corr.len() {
                corr[q] += h * am[0] * fp[q];
            }
            for (w, fv) in am[1..].iter().zip(fs.iter()) {
                for q in 0..corr.len() {
                    corr[q] += h * w * fv[q];
                }
            }
            Some(19.0 / 270.0 * dist2(&corr, &pred) / h)
        }
        SolverKind::BDF6 | SolverKind::BDF2 => {
            let s = solver.startup_steps();
            let mut pts = vec![];
            let (mut t, mut y) = (t0, y0.to_vec());
            for _ in 0..s {
                y = rk4(&f, t, &y, h).0;
                t += h;
                pts.push(y.clone());
            }
            let (hi, lo) = if solver == SolverKind::BDF6 { (6, 5) } else { (2, 1) };
            let solve = |order: usize| -> Vec<f64> {
                let (a, beta) = bdf_coeffs(order);
                let mut base = vec![0.0; y.len()];
                for (j, aj) in a.iter().enumerate() {
                    let yj = &pts[pts.len() - 1 - j];
                    for q in 0..base.len() {
                        base[q] += aj * yj[q];
                    }
                }
                let mut x = y.clone();
                for _ in 0..200 {
                    let fx = f(t + h, &x);
                    let nx: Vec<f64> = (0..x.len()).map(|q| base[q] + h * beta * fx[q]).collect();
                    let d = dist2(&nx, &x);
                    x = nx;
                    if d <= 1e-15 * (1.0 + norm2(&x)) {
                        break;
                    }
                }
                x
            };
            Some(dist2(&solve(hi), &solve(lo)))
        }
        SolverKind::Euler => None,
    }
}

pub struct Setup {
    pub cfg: Cfg,
    pub calls: Vec<Call>,
    pub cp: Compiled,
    pub euler_dt: f64,
}

pub fn setup(case: &Case) -> Option<Setup> {
    let cp = case.problem.compile()?;
    if case.y0.len() != cp.dim {
        return None;
    }
    let dt_max = case.dt_max;
    let dt_min = (dt_max * 10f64.powf(-case.min_exp)).min(dt_max);
    let dt0 = 0.5 * (dt_max + dt_min);
    let mut tol = case.tol;
    if let Some(fac) = case.recentre {
        if let Some(est) = first_estimate(case.solver, &cp, case.t0, &case.y0, dt0) {
            if est.is_finite() && est > 1e-13 {
                tol = (est * fac).clamp(1e-12, 1e-1);
            }
        }
    }
    let t_end = case.t0 + case.k * dt0;
    if !(t_end > case.t0) {
        return None;
    }
    let cfg = Cfg { solver: case.solver, t0: case.t0, t_end, dt_min, dt_max, tol };
    let (calls, euler_dt) = if case.solver == SolverKind::Euler {
        if case.euler_both {
            (vec![Call::MinDt(dt_min), Call::MaxDt(dt_max), Call::Start(cfg.t0), Call::End(t_end), Call::Init, Call::Deriv], 0.5 * (dt_min + dt_max))
        } else {
            (vec![Call::MaxDt(dt0), Call::Start(cfg.t0), Call::End(t_end), Call::Init, Call::Deriv], dt0)
        }
    } else {
        (cfg.calls(), 0.0)
    };
    Some(Setup { cfg, calls, cp, euler_dt })
}

/// the path invariants shared with C05/C06; returns Err(message) on violation
pub fn check_path(solver: SolverKind, cfg: &Cfg, euler_dt: f64, dim: usize, y0: &[f64], pts: &[(f64, Vec<f64>)], completed: bool) -> Result<(), String> {
    let s = tslack(cfg.t0, cfg.t_end);
    let max_gap = if solver == SolverKind::Euler { euler_dt } else { cfg.dt_max };
    let mut prev = cfg.t0;
    for (i, (t, y)) in pts.iter().enumerate() {
        if y.len() != dim {
            return Err(format!("point #{i} has {} components, the problem has {dim}", y.len()));
        }
        if !t.is_finite() || !y.iter().all(|v| v.is_finite()) {
            return Err(format!("point #{i} (t = {t:e}) is not finite"));
        }
        if solver == SolverKind::Euler && i == 0 {
            if *t != cfg.t0 || y.as_slice() != y0 {
                return Err(format!("Euler must yield the initial state first, got t = {t:e}"));
            }
        } else if !(*t > prev) {
            return Err(format!("times are not strictly increasing: point #{i} has t = {t:e} after {prev:e}"));
        }
        if !(*t >= cfg.t0 - s && *t <= cfg.t_end + s) {
            return Err(format!("point #{i} at t = {t:e} lies outside the requested interval [{:e}, {:e}]", cfg.t0, cfg.t_end));
        }
        let gap = *t - prev;
        if !(gap <= max_gap * (1.0 + 4.0 * EPS) + s) {
            return Err(format!("gap {gap:e} before point #{i} (t = {t:e}) exceeds the maximum step {max_gap:e}"));
        }
        prev = *t;
    }
    if completed {
        if solver == SolverKind::Euler {
            let Some((tl, _)) = pts.last() else { return Err("Euler yielded nothing".into()) };
            if !(*tl < cfg.t_end) {
                return Err(format!("Euler yielded a point at t = {tl:e}, not strictly before the ending time {:e}", cfg.t_end));
            }
            if !(cfg.t_end - tl <= euler_dt * (1.0 + 1e-9) + s) {
                return Err(format!("Euler stopped at t = {tl:e}: a step time before the ending time {:e} is missing (step {euler_dt:e})", cfg.t_end));
            }
            // The last step is clipped to land on the ending time; t + (end - t) can round to just below it, in which case
            // that landing point (still strictly before the ending time) is yielded as well: a final point within
            // rounding of the end after a step no longer than the configured one is part of a valid path.
            let n = pts.len();
            let landing = n >= 2 && cfg.t_end - pts[n - 1].0 <= s && pts[n - 1].0 - pts[n - 2].0 <= euler_dt * (1.0 + 1e-9) + s;
            let regular = if landing { &pts[..n - 1] } else { pts };
            for w in regular.windows(2) {
                let g = w[1].0 - w[0].0;
                if !((g - euler_dt).abs() <= 1e-9 * euler_dt + s) {
                    return Err(format!("Euler step from t = {:e} is {g:e}, configured {euler_dt:e}", w[0].0));
                }
            }
        } else {
            let Some((tl, _)) = pts.last() else { return Err("the solve completed without an error but yielded no point".into()) };
            if !((tl - cfg.t_end).abs() <= s) {
                return Err(format!("the solve completed without an error but its last point is at t = {tl:e}, not at the ending time {:e}", cfg.t_end));
            }
        }
    }
    Ok(())
}

pub fn run_case(case: &Case) -> Outcome {
    let mut o = Obs::new();
    let Some(su) = setup(case) else { return o.discard("degenerate configuration") };
    let (cfg, cp) = (&su.cfg, &su.cp);
    let solver = case.solver;
    o.label(solver.name());
    o.label(cp.p.class());
    o.label(["k-boundary", "k-short", "k-long"][case.kclass as usize % 3]);
    o.set("tol", cfg.tol);
    o.set("t_end", cfg.t_end);
    o.set("dt0", cfg.dt0());
    let probe = Rc::new(RefCell::new(Probe { budget: DERIV_BUDGET, ..Default::default() }));
    let rhs = |t: f64, y: &[f64], out: &mut [f64]| cp.f(t, y, out);
    let run = run_real(solver, case.dynamic, cp.dim, &su.calls, &case.y0, probe.clone(), &rhs, MAX_POINTS, 3);
    if case.dynamic {
        o.label("dynamic-dimension");
    }
    o.set("points", run.pts.len());
    o.set("derivative_calls", probe.borrow().calls);
    let completed = match &run.end {
        End::Done => true,
        End::Failed(ErrKind::UserError(_)) if probe.borrow().budget_hit => return o.discard("derivative budget exhausted (work is judged by C05)"),
        End::Failed(k) => {
            o.label("err");
            o.label(format!("err-{k:?}"));
            false
        }
        End::Build(i, k) => return o.fail(format!("valid configuration rejected at builder call {i}: {k:?}")),
        End::TooManyPoints | End::Budget => return o.discard("point/evaluation budget exhausted (work is judged by C05)"),
        End::Panic(m) => return o.fail(format!("panicked: {m}")),
    };
    o.set("end", format!("{:?}", run.end));
    // a growing problem integrated over thousands of steps can leave the floating-point range legitimately: the
    // amplification of any of the methods over the run is bounded by about e^{L T}, the range ends at e^709
    if cp.lipschitz * (cfg.t_end - cfg.t0).abs() > 600.0 && run.pts.iter().any(|(_, y)| !y.iter().all(|v| v.is_finite())) {
        return o.discard("overflow within the growth bound e^{L T} of the problem");
    }
    if let Err(m) = check_path(solver, cfg, su.euler_dt, cp.dim, &case.y0, &run.pts, completed) {
        return o.fail(m);
    }
    // nothing after the end
    if run.after_end.iter().any(|s| s != "None") {
        return o.fail(format!("iterator yields {:?} after it has ended", run.after_end));
    }
    // the same through collect_vec
    let probe2 = Rc::new(RefCell::new(Probe { budget: DERIV_BUDGET, ..Default::default() }));
    match collect_real(solver, case.dynamic, cp.dim, &su.calls, &case.y0, probe2, &rhs) {
        Err(m) => return o.fail(format!("collect_vec panicked: {m}")),
        Ok(Ok(p)) => {
            if !completed {
                return o.fail("iteration ended with an error but collect_vec returned Ok");
            }
            if p.len() != run.pts.len() || p.iter().zip(run.pts.iter()).any(|(a, b)| a.0 != b.0 || a.1 != b.1) {
                return o.fail("collect_vec and manual iteration produce different paths");
            }
        }
        Ok(Err(k)) => {
            if completed {
                return o.fail(format!("iteration completed but collect_vec returned Err({k:?})"));
            }
        }
    }
    // classification
    let gaps: Vec<f64> = {
        let mut g = vec![];
        let mut prev = cfg.t0;
        for (i, (t, _)) in run.pts.iter().enumerate() {
            if !(solver == SolverKind::Euler && i == 0) {
                g.push(t - prev);
            }
            prev = *t;
        }
        g
    };
    let unequal = gaps.windows(2).any(|w| (w[1] - w[0]).abs() > 1e-9 * w[0].abs());
    if solver != SolverKind::Euler {
        if gaps.first().map(|g| *g < cfg.dt0() * (1.0 - 1e-9)).unwrap_or(false) && case.k > 1.5 * solver.startup_steps().max(1) as f64 {
            o.label("rejected");
        }
        if gaps.windows(2).any(|w| w[1] > w[0] * 1.01) {
            o.label("grew");
        }
        if case.k <= solver.startup_steps() as f64 + 1.0 && solver.startup_steps() > 0 {
            o.label("startup-clipped");
        }
    }
    o.nontrivial = run.pts.len() >= 3 && (case.kclass == 0 || unequal);
    // K4: "exactly at the ending time" / "inside the requested interval" to the last bit. check_path has already
    // established both up to the rounding slack 16 eps max(|t0|, |t_end|); what remains is a deviation of a few ulps
    // (t + (end - t), or O start-up steps of (end - t)/O, do not land on `end` bit for bit) - judged last, so that
    // everything else about the path has been decided before.
    if completed && solver != SolverKind::Euler {
        if let Some((tl, _)) = run.pts.last() {
            let over = run.pts.iter().map(|p| p.0).fold(f64::NEG_INFINITY, f64::max);
            if *tl != cfg.t_end || over > cfg.t_end {
                let ulps = ((tl - cfg.t_end) / (cfg.t_end.abs().max(f64::MIN_POSITIVE) * EPS)).round();
                return o.fail_sig(
                    format!("{}: the last point is at t = {tl:e}, {ulps:+} ulp(s) from the ending time {:e} (largest yielded time {over:e})", solver.name(), cfg.t_end),
                    "ivp:end-time-off-by-rounding",
                );
            }
        }
    }
    o.pass()
}

pub fn config_strategy(t: Tier, solvers: &'static [SolverKind]) -> BoxedStrategy<(SolverKind, f64, f64, f64, f64, u8, f64, Option<f64>)> {
    let long_max = t.pick(300.0f64, 3000.0).log10();
    let k = prop_oneof![
        // boundary sweep: k = j + delta
        3 => (0u32..=9, prop_oneof![Just(-1e-9), Just(-1e-12), Just(0.0), Just(1e-12), Just(1e-9), gen::fl(0.0, 1.0)]).prop_map(|(j, d)| (if j == 0 && d <= 0.0 { 0.5 } else { j as f64 + d }, 0u8)),
        3 => gen::fl(0.05, 12.0).prop_map(|k| (k, 1u8)),
        2 => gen::logu(1.0, long_max).prop_map(|k| (k, 2u8)),
    ];
    let t0 = prop_oneof![1 => Just(0.0), 3 => gen::fl(-2.0, 2.0)];
    let min_exp = prop_oneof![1 => Just(0.0), 4 => gen::fl(0.0, 8.0)];
    let recentre = prop_oneof![1 => Just(None), 1 => gen::logu(-0.5, 0.5).prop_map(Some)];
    // one case in ten on a dyadic grid with a fixed step (start k/4, step 2^-j, whole number of steps): every time
    // addition is exact, so boundary tests such as `time + dt >= end` meet exact equality
    let dyadic = prop_oneof![9 => Just(None), 1 => (-8i32..=8, 2u32..=7, 1u32..=48).prop_map(Some)];
    (proptest::sample::select(solvers), t0, gen::logu(-3.0, -0.52), min_exp, k, gen::logu(-10.0, -2.0), recentre, dyadic)
        .prop_map(|(solver, t0, dt_max, min_exp, (k, kclass), tol, recentre, dyadic)| match dyadic {
            None => (solver, t0, dt_max, min_exp, k, kclass, tol, recentre),
            Some((q, j, n)) => (solver, q as f64 * 0.25, 0.5f64.powi(j as i32), 0.0, n as f64, 0u8, tol, None),
        })
        .boxed()
}

fn strategy(t: Tier) -> BoxedStrategy<Case> {
    (config_strategy(t, &ALL_SOLVERS), prop_oneof![11 => problem_any(), 1 => problem_generic_strong()], any::<bool>(), prop_oneof![3 => Just(false), 1 => Just(true)])
        .prop_map(|((solver, t0, dt_max, min_exp, k, kclass, tol, recentre), (problem, y0), euler_both, dynamic)| Case { solver, problem, y0, t0, dt_max, min_exp, k, kclass, tol, recentre, euler_both, dynamic })
        .boxed()
}

/// four fixed problems for the exhaustive boundary sweep
pub fn sweep_problems() -> Vec<(Problem, Vec<f64>)> {
    vec![
        (Problem::Lin { blocks: vec![(-0.5, 0.0)], mix: vec![0.0; 16], center: vec![0.0] }, vec![1.0]),
        (Problem::Lin { blocks: vec![(-0.1, 2.0)], mix: vec![0.3; 16], center: vec![0.5, -0.5] }, vec![1.0, 0.0]),
        (Problem::Forced { kind: vec![0, 1, 0], lam: vec![1.0, 0.5, 0.3], om: vec![2.0, 1.0, 0.7], amp: vec![1.0, -1.0, 0.5] }, vec![0.5, 0.0, -1.0]),
        (Problem::Generic { al: vec![1.0, 0.7, 0.5, 1.2], om: vec![1.3, 0.7, 0.4, 1.9], be: vec![0.4, 0.5, 0.3, 0.2], ga: vec![0.5, -0.4, 0.3, 0.6], nu: vec![0.7, 1.1, 0.5, 1.5] }, vec![0.3, -0.2, 0.5, 0.1]),
    ]
}

pub fn run(opts: &Opts) -> i32 {
    let mut spec = Spec::new("C01", strategy, run_case);
    // exhaustive boundary sweep: 7 solvers x j in 0..=9 x 6 deltas x 4 problems
    for solver in ALL_SOLVERS {
        for (problem, y0) in sweep_problems() {
            for j in 0..=9u32 {
                for d in [-1e-9, -1e-12, 0.0, 1e-12, 1e-9, 0.37] {
                    if j == 0 && d <= 0.0 {
                        continue;
                    }
                    spec.enumerated.push(Case { solver, problem: problem.clone(), y0: y0.clone(), t0: 0.25, dt_max: 0.05, min_exp: 3.0, k: j as f64 + d, kclass: 0, tol: 1e-6, recentre: None, euler_both: false, dynamic: j % 2 == 1 && d == 0.37 });
                }
            }
        }
    }
    spec.cases = opts.tier.pick(12_000, 300_000);
    spec.exhaustive = Some("boundary sweep: 7 solvers x 4 fixed problems x interval length (j + delta) dt0, j = 0..9, delta in {-1e-9,-1e-12,0,1e-12,1e-9,0.37}".into());
    spec.essential = vec![("rejected", 0.05), ("grew", 0.05), ("startup-clipped", 0.03), ("k-long", 0.1), ("euler", 0.05), ("bdf6", 0.05), ("generic", 0.1), ("dynamic-dimension", 0.1)];
    spec.max_discard_frac = 0.1;
    spec.rule = "generated: solver (7) x problem family P (linear constant-coefficient incl. solutions at rest, forced linear, separable, generic non-linear non-autonomous, one case in twelve with sine amplitudes 5-30 times larger so that L dt_max reaches 1-10; dimension 1-4) x t0 in [-2,2] x dt_max 10^[-3,-0.52] x dt_min = dt_max 10^-[0,8] x tolerance 10^[-10,-2] (half of the cases recentred on the reference error estimate of the first trial step x 10^[-0.5,0.5]) x interval length k dt0 with k from the boundary sweep j+delta, U(0.05,12) or log-uniform up to 300/3000 steps; one case in ten on a dyadic grid with a fixed step (start k/4, step 2^-j, whole number of steps: exact time arithmetic); Euler with one or both step setters; a quarter of the cases through new_dyn(dim) with a dynamically sized state. Oracle (invariant over the yielded history, through next() and collect_vec): strictly increasing times from t0, inside the interval (slack 16 eps max|t|), gaps <= dt_max, dimension and finiteness, completed adaptive solves end at the ending time, Euler yields (t0,y0) first and every step time before the end, nothing after the end. Non-trivial = >= 3 points and (boundary-sweep case or unequal gaps). Distinct = distinct case JSON.".into();
    spec.assumptions = vec!["time comparisons carry the slack 16 eps max(|t0|,|t_end|) (solvers accumulate time in floating point)".into()];
    spec.max_shrink_iters = 600;
    run_spec(spec, opts)
}

//! Reference formulas transcribed from the literature (Fehlberg 1969; Bogacki & Shampine 1989;
//! Hairer, Norsett & Wanner, "Solving ODEs I", III.1; Burden & Faires ch. 5), independent of bacon.

pub type Rhs<'a> = &'a dyn Fn(f64, &[f64]) -> Vec<f64>;

pub fn axpy(y: &[f64], terms: &[(f64, &Vec<f64>)]) -> Vec<f64> {
    let mut o = y.to_vec();
    for (a, v) in terms {
        for (q, x) in o.iter_mut().zip(v.iter()) {
            *q += a * x;
        }
    }
    o
}

pub fn norm2(v: &[f64]) -> f64 {
    v.iter().map(|x| x * x).sum::<f64>().sqrt()
}

pub fn dist2(a: &[f64], b: &[f64]) -> f64 {
    a.iter().zip(b.iter()).map(|(x, y)| (x - y) * (x - y)).sum::<f64>().sqrt()
}

/// result of an embedded Runge-Kutta step: advanced state, embedded error estimate per unit step
/// (norm of sum (b_i - b*_i) f_i), and a scale for rounding allowances (sum |b_i| |h f_i|)
pub struct Embedded {
    pub y: Vec<f64>,
    pub est: f64,
    pub scale: f64,
    pub fnorm: f64,
}

/// Runge-Kutta-Fehlberg 4(5); the solution is advanced with the 4th-order weights
pub fn rkf45(f: Rhs, t: f64, y: &[f64], h: f64) -> Embedded {
    let c = [0.0, 1.0 / 4.0, 3.0 / 8.0, 12.0 / 13.0, 1.0, 1.0 / 2.0];
    let a: [&[f64]; 6] = [
        &[],
        &[1.0 / 4.0],
        &[3.0 / 32.0, 9.0 / 32.0],
        &[1932.0 / 2197.0, -7200.0 / 2197.0, 7296.0 / 2197.0],
        &[439.0 / 216.0, -8.0, 3680.0 / 513.0, -845.0 / 4104.0],
        &[-8.0 / 27.0, 2.0, -3544.0 / 2565.0, 1859.0 / 4104.0, -11.0 / 40.0],
    ];
    let b4 = [25.0 / 216.0, 0.0, 1408.0 / 2565.0, 2197.0 / 4104.0, -1.0 / 5.0, 0.0];
    let b5 = [16.0 / 135.0, 0.0, 6656.0 / 12825.0, 28561.0 / 56430.0, -9.0 / 50.0, 2.0 / 55.0];
    embedded(f, t, y, h, &c, &a, &b4, &b5)
}

/// Bogacki-Shampine 3(2); advanced with the 3rd-order weights
pub fn bs23(f: Rhs, t: f64, y: &[f64], h: f64) -> Embedded {
    let c = [0.0, 1.0 / 2.0, 3.0 / 4.0, 1.0];
    let a: [&[f64]; 4] = [&[], &[1.0 / 2.0], &[0.0, 3.0 / 4.0], &[2.0 / 9.0, 1.0 / 3.0, 4.0 / 9.0]];
    let b3 = [2.0 / 9.0, 1.0 / 3.0, 4.0 / 9.0, 0.0];
    let b2 = [7.0 / 24.0, 1.0 / 4.0, 1.0 / 3.0, 1.0 / 8.0];
    embedded(f, t, y, h, &c, &a, &b3, &b2)
}

fn embedded(f: Rhs, t: f64, y: &[f64], h: f64, c: &[f64], a: &[&[f64]], b: &[f64], bstar: &[f64]) -> Embedded {
    let s = c.len();
    let d = y.len();
    let mut k: Vec<Vec<f64>> = Vec::with_capacity(s);
    for i in 0..s {
        let mut yi = y.to_vec();
        for (j, aij) in a[i].iter().enumerate() {
            for q in 0..d {
                yi[q] += h * aij * k[j][q];
            }
        }
        k.push(f(t + c[i] * h, &yi));
    }
    let mut ynew = y.to_vec();
    let mut e = vec![0.0; d];
    let mut scale = 0.0;
    let mut fnorm: f64 = 0.0;
    for i in 0..s {
        for q in 0..d {
            ynew[q] += h * b[i] * k[i][q];
            e[q] += (b[i] - bstar[i]) * k[i][q];
        }
        scale += b[i].abs() * h.abs() * norm2(&k[i]);
        fnorm = fnorm.max(norm2(&k[i]));
    }
    Embedded { y: ynew, est: norm2(&e), scale, fnorm }
}

/// classical fourth-order Runge-Kutta step
pub fn rk4(f: Rhs, t: f64, y: &[f64], h: f64) -> (Vec<f64>, f64) {
    let k1 = f(t, y);
    let k2 = f(t + 0.5 * h, &axpy(y, &[(0.5 * h, &k1)]));
    let k3 = f(t + 0.5 * h, &axpy(y, &[(0.5 * h, &k2)]));
    let k4 = f(t + h, &axpy(y, &[(h, &k3)]));
    let mut o = y.to_vec();
    for q in 0..y.len() {
        o[q] += h / 6.0 * (k1[q] + 2.0 * k2[q] + 2.0 * k3[q] + k4[q]);
    }
    let scale = h.abs() * (norm2(&k1) + 2.0 * norm2(&k2) + 2.0 * norm2(&k3) + norm2(&k4)) / 6.0;
    (o, scale)
}

pub fn euler_step(f: Rhs, t: f64, y: &[f64], h: f64) -> Vec<f64> {
    let k = f(t, y);
    axpy(y, &[(h, &k)])
}

/// Adams-Bashforth predictor weights on f_n, f_{n-1}, ... (newest first)
pub fn ab_weights(steps: usize) -> Vec<f64> {
    match steps {
        2 => vec![3.0 / 2.0, -1.0 / 2.0],
        4 => vec![55.0 / 24.0, -59.0 / 24.0, 37.0 / 24.0, -9.0 / 24.0],
        _ => panic!("unsupported Adams-Bashforth order"),
    }
}

/// Adams-Moulton corrector weights on f_{n+1}, f_n, f_{n-1}, ... (implicit first)
pub fn am_weights(steps: usize) -> Vec<f64> {
    match steps {
        2 => vec![5.0 / 12.0, 2.0 / 3.0, -1.0 / 12.0],
        4 => vec![251.0 / 720.0, 646.0 / 720.0, -264.0 / 720.0, 106.0 / 720.0, -19.0 / 720.0],
        _ => panic!("unsupported Adams-Moulton order"),
    }
}

/// BDF: y_{n+1} = sum_j a_j y_{n+1-j} + h beta f(t_{n+1}, y_{n+1}); returns (a_1.., beta)
pub fn bdf_coeffs(order: usize) -> (Vec<f64>, f64) {
    match order {
        1 => (vec![1.0], 1.0),
        2 => (vec![4.0 / 3.0, -1.0 / 3.0], 2.0 / 3.0),
        5 => (vec![300.0 / 137.0, -300.0 / 137.0, 200.0 / 137.0, -75.0 / 137.0, 12.0 / 137.0], 60.0 / 137.0),
        6 => (vec![360.0 / 147.0, -450.0 / 147.0, 400.0 / 147.0, -225.0 / 147.0, 72.0 / 147.0, -10.0 / 147.0], 60.0 / 147.0),
        _ => panic!("unsupported BDF order"),
    }
}

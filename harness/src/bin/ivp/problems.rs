//! The smooth non-stiff problem family P (DESIGN section 4) with closed-form or reference flows.

use nalgebra::DMatrix;
use proptest::prelude::*;
use serde::{Deserialize, Serialize};

use bverif::engine::gen;

#[derive(Clone, Debug, Serialize, Deserialize)]
pub enum Problem {
    /// (a)/(e) y' = A (y - c), A = M B M^-1, B block diagonal from `blocks` (a, w): w = 0 -> 1x1 block [a],
    /// w != 0 -> 2x2 block [[a,-w],[w,a]]; M = I + 0.3 R (strictly diagonally dominant, well conditioned)
    Lin { blocks: Vec<(f64, f64)>, mix: Vec<f64>, center: Vec<f64> },
    /// (b) decoupled time-varying: kind 0: y' = -lam y + amp sin(om t); kind 1: y' = amp cos(om t)
    Forced { kind: Vec<u8>, lam: Vec<f64>, om: Vec<f64>, amp: Vec<f64> },
    /// (c) separable non-linear: kind 0 logistic y' = r y (1-y) (y in (0,1)); kind 1: y' = -r y^2 (y > 0)
    Sep { kind: Vec<u8>, r: Vec<f64> },
    /// (d) generic non-linear non-autonomous coupling (no closed form):
    /// f_i = al_i sin(om_i t + y_{i+1}) - be_i y_i + ga_i y_{i+1} cos(nu_i t) / (1 + y_i^2)
    Generic { al: Vec<f64>, om: Vec<f64>, be: Vec<f64>, ga: Vec<f64>, nu: Vec<f64> },
    /// (f) decoupled quasi-steady relaxation onto a slowly moving branch (no closed form), for the method checks only:
    /// f_i = -lam_i (y_i^2 - (c0_i + a_i t)^2), started on the branch y = c0 + a t0; strongly curved in y
    Quasi { lam: Vec<f64>, c0: Vec<f64>, a: Vec<f64> },
}

/// Pre-computed form used during a run
pub struct Compiled {
    pub p: Problem,
    pub dim: usize,
    a: Option<DMatrix<f64>>,
    m: Option<DMatrix<f64>>,
    minv: Option<DMatrix<f64>>,
    pub lipschitz: f64,
    /// logarithmic-norm-type growth rate mu (error amplification e^{mu T}); conservative
    pub growth: f64,
    /// condition number of the mixing matrix (1 for the decoupled families)
    pub cond: f64,
    /// time-scale of the solution: max of the Lipschitz constant and the forcing frequencies
    pub rate: f64,
}

impl Problem {
    pub fn dim(&self) -> usize {
        match self {
            Problem::Lin { blocks, .. } => blocks.iter().map(|b| if b.1 == 0.0 { 1 } else { 2 }).sum(),
            Problem::Forced { kind, .. } => kind.len(),
            Problem::Sep { kind, .. } => kind.len(),
            Problem::Generic { al, .. } => al.len(),
            Problem::Quasi { lam, .. } => lam.len(),
        }
    }
    pub fn class(&self) -> &'static str {
        match self {
            Problem::Lin { .. } => "lin",
            Problem::Forced { .. } => "forced",
            Problem::Sep { .. } => "separable",
            Problem::Generic { .. } => "generic",
            Problem::Quasi { .. } => "quasi-steady",
        }
    }
    pub fn has_closed_form(&self) -> bool {
        !matches!(self, Problem::Generic { .. } | Problem::Quasi { .. })
    }
    pub fn compile(&self) -> Option<Compiled> {
        let dim = self.dim();
        if dim == 0 || dim > 4 {
            return None;
        }
        match self {
            Problem::Lin { blocks, mix, .. } => {
                let mut b = DMatrix::<f64>::zeros(dim, dim);
                let mut k = 0;
                let mut rate: f64 = 0.0;
                let mut gr: f64 = f64::NEG_INFINITY;
                for &(a, w) in blocks {
                    if w == 0.0 {
                        b[(k, k)] = a;
                        k += 1;
                    } else {
                        b[(k, k)] = a;
                        b[(k + 1, k + 1)] = a;
                        b[(k, k + 1)] = -w;
                        b[(k + 1, k)] = w;
                        k += 2;
                    }
                    rate = rate.max((a * a + w * w).sqrt());
                    gr = gr.max(a);
                }
                let m = DMatrix::from_fn(dim, dim, |i, j| if i == j { 1.0 } else { 0.3 * mix[i * 4 + j] / (dim as f64 - 1.0).max(1.0) });
                let minv = m.clone().try_inverse()?;
                let a = &m * &b * &minv;
                let cond = m.norm() * minv.norm();
                Some(Compiled { p: self.clone(), dim, lipschitz: a.norm().max(rate), growth: gr.max(0.0), cond, rate: a.norm().max(rate), a: Some(a), m: Some(m), minv: Some(minv) })
            }
            Problem::Forced { lam, om, .. } => {
                let l = lam.iter().cloned().fold(0.0, f64::max).max(0.05);
                Some(Compiled { p: self.clone(), dim, a: None, m: None, minv: None, lipschitz: l, growth: 0.0, cond: 1.0, rate: om.iter().cloned().fold(l, f64::max) })
            }
            Problem::Sep { r, .. } => {
                // logistic on (0,1): |f'| <= r; -r y^2 with 0 < y <= 1.8: |f'| <= 3.6 r
                let l = 4.0 * r.iter().cloned().fold(0.0, f64::max).max(0.05);
                Some(Compiled { p: self.clone(), dim, a: None, m: None, minv: None, lipschitz: l, growth: 0.0, cond: 1.0, rate: l })
            }
            Problem::Generic { al, be, ga, om, nu } => {
                // |df_i/dy_{i+1}| <= al + ga, |df_i/dy_i| <= be + 0.65 ga Y with |y| <= Y = 4
                let l = (0..dim).map(|i| al[i].abs() + ga[i].abs() + be[i].abs() + 0.65 * 4.0 * ga[i].abs()).fold(0.0, f64::max);
                let fr = om.iter().chain(nu.iter()).cloned().fold(0.0, f64::max);
                Some(Compiled { p: self.clone(), dim, a: None, m: None, minv: None, lipschitz: l.max(0.05), growth: l, cond: 1.0, rate: l.max(fr).max(0.05) })
            }
            Problem::Quasi { lam, c0, a } => {
                // |df/dy| = 2 lam |y| with y near the branch |c0 + a t|, |t| <= 40
                let l = (0..dim).map(|i| 2.0 * lam[i].abs() * 1.5 * (c0[i].abs() + 40.0 * a[i].abs())).fold(0.0, f64::max);
                Some(Compiled { p: self.clone(), dim, a: None, m: None, minv: None, lipschitz: l.max(0.05), growth: 0.0, cond: 1.0, rate: l.max(0.05) })
            }
        }
    }
}

impl Compiled {
    /// right-hand side
    pub fn f(&self, t: f64, y: &[f64], out: &mut [f64]) {
        let d = self.dim;
        match &self.p {
            Problem::Lin { center, .. } => {
                let a = self.a.as_ref().unwrap();
                for i in 0..d {
                    let mut s = 0.0;
                    for j in 0..d {
                        s += a[(i, j)] * (y[j] - center[j]);
                    }
                    out[i] = s;
                }
            }
            Problem::Forced { kind, lam, om, amp } => {
                for i in 0..d {
                    out[i] = if kind[i] == 0 { -lam[i] * y[i] + amp[i] * (om[i] * t).sin() } else { amp[i] * (om[i] * t).cos() };
                }
            }
            Problem::Sep { kind, r } => {
                for i in 0..d {
                    out[i] = if kind[i] == 0 { r[i] * y[i] * (1.0 - y[i]) } else { -r[i] * y[i] * y[i] };
                }
            }
            Problem::Generic { al, om, be, ga, nu } => {
                for i in 0..d {
                    let yn = y[(i + 1) % d];
                    out[i] = al[i] * (om[i] * t + yn).sin() - be[i] * y[i] + ga[i] * yn * (nu[i] * t).cos() / (1.0 + y[i] * y[i]);
                }
            }
            Problem::Quasi { lam, c0, a } => {
                for i in 0..d {
                    let c = c0[i] + a[i] * t;
                    out[i] = -lam[i] * (y[i] * y[i] - c * c);
                }
            }
        }
    }

    pub fn fv(&self, t: f64, y: &[f64]) -> Vec<f64> {
        let mut o = vec![0.0; self.dim];
        self.f(t, y, &mut o);
        o
    }

    /// exact flow from (ta, ya) to tb where a closed form exists
    pub fn flow_exact(&self, ta: f64, ya: &[f64], tb: f64) -> Option<Vec<f64>> {
        let d = self.dim;
        let h = tb - ta;
        match &self.p {
            Problem::Lin { blocks, center, .. } => {
                let (m, minv) = (self.m.as_ref().unwrap(), self.minv.as_ref().unwrap());
                // z = M^-1 (y - c); z(t) = e^{B h} z
                let mut z = vec![0.0; d];
                for i in 0..d {
                    for j in 0..d {
                        z[i] += minv[(i, j)] * (ya[j] - center[j]);
                    }
                }
                let mut k = 0;
                for &(a, w) in blocks {
                    let e = (a * h).exp();
                    if w == 0.0 {
                        z[k] *= e;
                        k += 1;
                    } else {
                        let (c, s) = ((w * h).cos(), (w * h).sin());
                        let (u, v) = (z[k], z[k + 1]);
                        z[k] = e * (c * u - s * v);
                        z[k + 1] = e * (s * u + c * v);
                        k += 2;
                    }
                }
                let mut y = vec![0.0; d];
                for i in 0..d {
                    y[i] = center[i];
                    for j in 0..d {
                        y[i] += m[(i, j)] * z[j];
                    }
                }
                Some(y)
            }
            Problem::Forced { kind, lam, om, amp } => {
                let mut y = vec![0.0; d];
                for i in 0..d {
                    if kind[i] == 0 {
                        let den = lam[i] * lam[i] + om[i] * om[i];
                        let yp = |t: f64| amp[i] * (lam[i] * (om[i] * t).sin() - om[i] * (om[i] * t).cos()) / den;
                        y[i] = (ya[i] - yp(ta)) * (-lam[i] * h).exp() + yp(tb);
                    } else {
                        // (amp/om)(sin om tb - sin om ta) = (2 amp/om) cos(om (ta+tb)/2) sin(om h/2)
                        y[i] = ya[i] + 2.0 * amp[i] / om[i] * (om[i] * 0.5 * (ta + tb)).cos() * (om[i] * 0.5 * h).sin();
                    }
                }
                Some(y)
            }
            Problem::Sep { kind, r } => {
                let mut y = vec![0.0; d];
                for i in 0..d {
                    y[i] = if kind[i] == 0 {
                        // logistic: y = ya / (ya + (1 - ya) e^{-r h})
                        ya[i] / (ya[i] + (1.0 - ya[i]) * (-r[i] * h).exp())
                    } else {
                        ya[i] / (1.0 + r[i] * ya[i] * h)
                    };
                }
                Some(y)
            }
            Problem::Generic { .. } | Problem::Quasi { .. } => None,
        }
    }

    /// reference flow: closed form, or 3-stage Gauss-Legendre (order 6) with substep doubling until two
    /// resolutions agree to 1e-14 relative
    pub fn flow(&self, ta: f64, ya: &[f64], tb: f64) -> Option<Vec<f64>> {
        if let Some(y) = self.flow_exact(ta, ya, tb) {
            return Some(y);
        }
        let l = self.lipschitz.max(0.1);
        let mut n = (((tb - ta).abs() * l / 0.2).ceil() as usize).max(1);
        let mut prev = self.gl6(ta, ya, tb, n)?;
        for _ in 0..8 {
            n *= 2;
            let cur = self.gl6(ta, ya, tb, n)?;
            let diff = cur.iter().zip(prev.iter()).map(|(a, b)| (a - b).abs()).fold(0.0, f64::max);
            let scale = 1.0 + cur.iter().map(|x| x.abs()).fold(0.0, f64::max);
            if diff <= 1e-14 * scale {
                return Some(cur);
            }
            prev = cur;
        }
        None
    }

    fn gl6(&self, ta: f64, ya: &[f64], tb: f64, n: usize) -> Option<Vec<f64>> {
        let d = self.dim;
        let s15 = 15f64.sqrt();
        let c = [0.5 - s15 / 10.0, 0.5, 0.5 + s15 / 10.0];
        let a = [
            [5.0 / 36.0, 2.0 / 9.0 - s15 / 15.0, 5.0 / 36.0 - s15 / 30.0],
            [5.0 / 36.0 + s15 / 24.0, 2.0 / 9.0, 5.0 / 36.0 - s15 / 24.0],
            [5.0 / 36.0 + s15 / 30.0, 2.0 / 9.0 + s15 / 15.0, 5.0 / 36.0],
        ];
        let b = [5.0 / 18.0, 4.0 / 9.0, 5.0 / 18.0];
        let h = (tb - ta) / n as f64;
        let mut y = ya.to_vec();
        let mut t = ta;
        let mut k = vec![vec![0.0; d]; 3];
        for _ in 0..n {
            let f0 = self.fv(t, &y);
            for ki in k.iter_mut() {
                ki.copy_from_slice(&f0);
            }
            let mut converged = false;
            for _ in 0..60 {
                let mut change: f64 = 0.0;
                let mut newk = vec![vec![0.0; d]; 3];
                for i in 0..3 {
                    let mut yi = y.clone();
                    for j in 0..3 {
                        for q in 0..d {
                            yi[q] += h * a[i][j] * k[j][q];
                        }
                    }
                    self.f(t + c[i] * h, &yi, &mut newk[i]);
                    for q in 0..d {
                        change = change.max((newk[i][q] - k[i][q]).abs());
                    }
                }
                k = newk;
                let scale = 1.0 + k.iter().flatten().map(|x| x.abs()).fold(0.0, f64::max);
                if change <= 4.0 * f64::EPSILON * scale {
                    converged = true;
                    break;
                }
            }
            if !converged {
                return None;
            }
            for q in 0..d {
                y[q] += h * (b[0] * k[0][q] + b[1] * k[1][q] + b[2] * k[2][q]);
            }
            t += h;
            if !y.iter().all(|x| x.is_finite()) {
                return None;
            }
        }
        Some(y)
    }
}

// ------------------------------------------------------------------------------------------------
// generators

fn vecn(n: usize, s: BoxedStrategy<f64>) -> BoxedStrategy<Vec<f64>> {
    proptest::collection::vec(s, n).boxed()
}

/// (problem, initial state)
pub fn problem_lin(at_rest: bool) -> BoxedStrategy<(Problem, Vec<f64>)> {
    let block = prop_oneof![
        // decay / mild growth
        (gen::fl(-1.0, 0.5), Just(0.0)),
        // rotation with decay/growth
        (gen::fl(-1.0, 0.5), gen::fl(0.5, 3.0)),
    ];
    (proptest::collection::vec(block, 1..=3), vecn(16, gen::fl(-1.0, 1.0)), vecn(4, gen::fl(-2.0, 2.0)), vecn(4, gen::fl(-2.0, 2.0)), gen::logu(-6.0, -1.0))
        .prop_map(move |(mut blocks, mix, center, y0, eps)| {
            // total dimension <= 4
            let mut d = 0;
            blocks.retain(|b| {
                let s = if b.1 == 0.0 { 1 } else { 2 };
                if d + s <= 4 {
                    d += s;
                    true
                } else {
                    false
                }
            });
            let y0: Vec<f64> = if at_rest { (0..d).map(|i| center[i] + if eps < 1e-5 { 0.0 } else { eps * y0[i] }).collect() } else { y0[..d].to_vec() };
            (Problem::Lin { blocks, mix, center: center[..d].to_vec() }, y0)
        })
        .boxed()
}

/// solutions relaxing to a steady state from a distance of order one: every block decays (a in [-1, -0.2]),
/// optionally rotating; (problem, initial state, slowest decay rate)
pub fn problem_relaxing() -> BoxedStrategy<(Problem, Vec<f64>, f64)> {
    let block = prop_oneof![(gen::fl(-1.0, -0.2), Just(0.0)), (gen::fl(-1.0, -0.2), gen::fl(0.5, 2.0))];
    (proptest::collection::vec(block, 1..=3), vecn(16, gen::fl(-1.0, 1.0)), vecn(4, gen::fl(-2.0, 2.0)), vecn(4, gen::fl(-2.0, 2.0)))
        .prop_map(|(mut blocks, mix, center, off)| {
            let mut d = 0;
            blocks.retain(|b| {
                let s = if b.1 == 0.0 { 1 } else { 2 };
                if d + s <= 4 {
                    d += s;
                    true
                } else {
                    false
                }
            });
            let mu = blocks.iter().map(|b| -b.0).fold(f64::INFINITY, f64::min);
            let y0: Vec<f64> = (0..d).map(|i| center[i] + off[i]).collect();
            (Problem::Lin { blocks, mix, center: center[..d].to_vec() }, y0, mu)
        })
        .boxed()
}

pub fn problem_forced() -> BoxedStrategy<(Problem, Vec<f64>)> {
    (1usize..=4)
        .prop_flat_map(|d| (proptest::collection::vec(0u8..2, d), vecn(d, gen::fl(0.1, 2.0)), vecn(d, gen::fl(0.3, 3.0)), vecn(d, gen::fl(-2.0, 2.0)), vecn(d, gen::fl(-2.0, 2.0))))
        .prop_map(|(kind, lam, om, amp, y0)| (Problem::Forced { kind, lam, om, amp }, y0))
        .boxed()
}

pub fn problem_sep() -> BoxedStrategy<(Problem, Vec<f64>)> {
    (1usize..=4)
        .prop_flat_map(|d| (proptest::collection::vec(0u8..2, d), vecn(d, gen::fl(0.2, 2.0)), vecn(d, gen::fl(0.1, 0.9))))
        .prop_map(|(kind, r, y0)| {
            // logistic: y0 in (0.1, 0.9); -r y^2: y0 in (0.2, 1.8)
            let y0 = y0.iter().zip(kind.iter()).map(|(y, k)| if *k == 0 { *y } else { 2.0 * *y }).collect();
            (Problem::Sep { kind, r }, y0)
        })
        .boxed()
}

pub fn problem_generic() -> BoxedStrategy<(Problem, Vec<f64>)> {
    (1usize..=4)
        .prop_flat_map(|d| (vecn(d, gen::fl(0.3, 1.5)), vecn(d, gen::fl(0.3, 2.0)), vecn(d, gen::fl(0.1, 0.8)), vecn(d, gen::fl(-0.8, 0.8)), vecn(d, gen::fl(0.2, 1.7)), vecn(d, gen::fl(-1.0, 1.0))))
        .prop_map(|(al, om, be, ga, nu, y0)| (Problem::Generic { al, om, be, ga, nu }, y0))
        .boxed()
}

/// strongly non-linear variant of the generic family for the path invariants only: the sine amplitudes are 5-30 times
/// larger, so that L dt_max reaches 1-10 and the implicit solvers' inner iteration can fail or need smaller steps
pub fn problem_generic_strong() -> BoxedStrategy<(Problem, Vec<f64>)> {
    (problem_generic(), gen::fl(5.0, 30.0))
        .prop_map(|((p, y0), f)| match p {
            Problem::Generic { al, om, be, ga, nu } => (Problem::Generic { al: al.into_iter().map(|a| a * f).collect(), om, be, ga, nu }, y0),
            other => (other, y0),
        })
        .boxed()
}

/// quasi-steady relaxations in units of the step and the tolerance (the caller scales them): lam dt^2 in [0.5,8],
/// lam c0 dt in [0.2,1.3] (inside the start-up's stability region), branch motion per step in [0.2,4] tolerances
pub fn problem_quasi_units() -> BoxedStrategy<(Problem, Vec<f64>)> {
    (1usize..=2)
        .prop_flat_map(|d| (vecn(d, gen::fl(0.5, 8.0)), vecn(d, gen::fl(0.2, 1.3)), vecn(d, (gen::fl(0.2, 4.0), any::<bool>()).prop_map(|(m, neg)| if neg { -m } else { m }).boxed())))
        .prop_map(|(lam, c0, a)| {
            let d = lam.len();
            (Problem::Quasi { lam, c0, a }, vec![0.0; d])
        })
        .boxed()
}

/// the same problem on a time axis stretched by `s`: y(t) -> y(t / s). Every rate, frequency and forcing amplitude is
/// divided by s; solutions, amplitudes and conditioning are unchanged (slow time scales: steps far above 1)
pub fn scale_time(p: Problem, s: f64) -> Problem {
    let d = |v: Vec<f64>| v.into_iter().map(|x| x / s).collect::<Vec<f64>>();
    match p {
        Problem::Lin { blocks, mix, center } => Problem::Lin { blocks: blocks.into_iter().map(|(a, w)| (a / s, w / s)).collect(), mix, center },
        // kind 0: y' = -lam y + amp sin(om t): the particular solution keeps its size when lam, om and amp scale together;
        // kind 1: y' = amp cos(om t) likewise
        Problem::Forced { kind, lam, om, amp } => Problem::Forced { kind, lam: d(lam), om: d(om), amp: d(amp) },
        Problem::Sep { kind, r } => Problem::Sep { kind, r: d(r) },
        Problem::Generic { al, om, be, ga, nu } => Problem::Generic { al: d(al), om: d(om), be: d(be), ga: d(ga), nu: d(nu) },
        Problem::Quasi { lam, c0, a } => Problem::Quasi { lam: d(lam), c0, a: d(a) },
    }
}

/// the whole family with the stated weights
pub fn problem_any() -> BoxedStrategy<(Problem, Vec<f64>)> {
    prop_oneof![3 => problem_lin(false), 1 => problem_lin(true), 2 => problem_forced(), 2 => problem_sep(), 3 => problem_generic()].boxed()
}

/// only problems with a closed-form flow
pub fn problem_closed() -> BoxedStrategy<(Problem, Vec<f64>)> {
    prop_oneof![3 => problem_lin(false), 2 => problem_forced(), 2 => problem_sep()].boxed()
}

#![allow(dead_code)]
#[macro_use]
mod drive;
mod c01;
mod c02;
mod c03;
mod c04;
mod c05;
mod c06;
mod methods;
mod problems;

fn main() {
    let opts = bverif::engine::parse_args();
    let code = match opts.prop.as_str() {
        "C01" => c01::run(&opts),
        "C02" => c02::run(&opts),
        "C03" => c03::run(&opts),
        "C04" => c04::run(&opts),
        "C05" => c05::run(&opts),
        "C06" => c06::run(&opts),
        p => {
            eprintln!("ivp: unknown property {p}");
            2
        }
    };
    std::process::exit(code);
}

//! Driving the seven solvers through the public builder/iterator API.

use bacon_sci::ivp::adams::{Adams3, Adams5};
use bacon_sci::ivp::bdf::{BDF2, BDF6};
use bacon_sci::ivp::rk::{RungeKutta23, RungeKutta45};
use bacon_sci::ivp::{Euler, IVPError, IVPSolver, UserError};
use bacon_sci::{BVector, Dimension};
use bverif::engine::{guard, Caught};
use nalgebra::allocator::Allocator;
use nalgebra::{ComplexField, Const, DefaultAllocator, Dim, Dyn, U1};
use serde::{Deserialize, Serialize};
use std::cell::RefCell;
use std::fmt;
use std::rc::Rc;

#[derive(Clone, Copy, Debug, PartialEq, Eq, Serialize, Deserialize)]
pub enum SolverKind {
    Euler,
    RK45,
    RK23,
    Adams5,
    Adams3,
    BDF6,
    BDF2,
}

pub const ALL_SOLVERS: [SolverKind; 7] = [SolverKind::Euler, SolverKind::RK45, SolverKind::RK23, SolverKind::Adams5, SolverKind::Adams3, SolverKind::BDF6, SolverKind::BDF2];
pub const ADAPTIVE: [SolverKind; 6] = [SolverKind::RK45, SolverKind::RK23, SolverKind::Adams5, SolverKind::Adams3, SolverKind::BDF6, SolverKind::BDF2];

impl SolverKind {
    pub fn name(self) -> &'static str {
        match self {
            SolverKind::Euler => "euler",
            SolverKind::RK45 => "rk45",
            SolverKind::RK23 => "rk23",
            SolverKind::Adams5 => "adams5",
            SolverKind::Adams3 => "adams3",
            SolverKind::BDF6 => "bdf6",
            SolverKind::BDF2 => "bdf2",
        }
    }
    /// order p of the error estimator (work ~ tol^(-1/p))
    pub fn est_order(self) -> f64 {
        match self {
            SolverKind::RK45 | SolverKind::Adams5 => 4.0,
            SolverKind::RK23 | SolverKind::Adams3 | SolverKind::BDF2 => 2.0,
            SolverKind::BDF6 => 6.0,
            SolverKind::Euler => 1.0,
        }
    }
    /// the step cap L*dt_max <= cap(tol) of the quantifier of C02
    pub fn step_cap(self, tol: f64) -> f64 {
        match self {
            SolverKind::RK45 | SolverKind::Adams5 | SolverKind::BDF6 => 2.0 * tol.powf(0.2),
            _ => tol.powf(1.0 / 3.0),
        }
    }
    /// number of history points of the multistep formula / start-up steps
    pub fn startup_steps(self) -> usize {
        match self {
            SolverKind::Adams5 => 4,
            SolverKind::Adams3 => 2,
            SolverKind::BDF6 => 7,
            SolverKind::BDF2 => 3,
            _ => 0,
        }
    }
    pub fn is_bdf(self) -> bool {
        matches!(self, SolverKind::BDF6 | SolverKind::BDF2)
    }
    pub fn is_adams(self) -> bool {
        matches!(self, SolverKind::Adams5 | SolverKind::Adams3)
    }
    pub fn is_rk(self) -> bool {
        matches!(self, SolverKind::RK45 | SolverKind::RK23)
    }
}

#[derive(Clone, Debug, PartialEq, Eq, Serialize, Deserialize)]
pub enum ErrKind {
    MissingParameters,
    UserError(String),
    ToleranceOOB,
    TimeDeltaOOB,
    TimeEndOOB,
    TimeStartOOB,
    FromPrimitiveFailure,
    MinimumTimeDeltaExceeded,
    MaximumIterationsExceeded,
    SingularMatrix,
    DynamicOnStatic,
    StaticOnDynamic,
}

pub fn classify(e: &IVPError) -> ErrKind {
    match e {
        IVPError::MissingParameters => ErrKind::MissingParameters,
        IVPError::UserError(u) => ErrKind::UserError(u.to_string()),
        IVPError::ToleranceOOB => ErrKind::ToleranceOOB,
        IVPError::TimeDeltaOOB => ErrKind::TimeDeltaOOB,
        IVPError::TimeEndOOB => ErrKind::TimeEndOOB,
        IVPError::TimeStartOOB => ErrKind::TimeStartOOB,
        IVPError::FromPrimitiveFailure => ErrKind::FromPrimitiveFailure,
        IVPError::MinimumTimeDeltaExceeded => ErrKind::MinimumTimeDeltaExceeded,
        IVPError::MaximumIterationsExceeded => ErrKind::MaximumIterationsExceeded,
        IVPError::SingularMatrix => ErrKind::SingularMatrix,
        IVPError::DynamicOnStatic => ErrKind::DynamicOnStatic,
        IVPError::StaticOnDynamic => ErrKind::StaticOnDynamic,
    }
}

/// one builder call
#[derive(Clone, Debug, Serialize, Deserialize, PartialEq)]
pub enum Call {
    Tol(f64),
    MaxDt(f64),
    MinDt(f64),
    Start(f64),
    End(f64),
    Init,
    Deriv,
}

#[derive(Clone, Debug, Serialize, Deserialize)]
pub struct Cfg {
    pub solver: SolverKind,
    pub t0: f64,
    pub t_end: f64,
    pub dt_min: f64,
    pub dt_max: f64,
    pub tol: f64,
}

impl Cfg {
    /// the standard builder sequence (Euler: step through with_maximum_dt only, as the crate's tests do)
    pub fn calls(&self) -> Vec<Call> {
        if self.solver == SolverKind::Euler {
            vec![Call::MaxDt(self.dt_max), Call::Start(self.t0), Call::End(self.t_end), Call::Init, Call::Deriv]
        } else {
            vec![Call::Tol(self.tol), Call::MaxDt(self.dt_max), Call::MinDt(self.dt_min), Call::Start(self.t0), Call::End(self.t_end), Call::Init, Call::Deriv]
        }
    }
    /// first trial step of the adaptive solvers
    pub fn dt0(&self) -> f64 {
        0.5 * (self.dt_max + self.dt_min)
    }
}

#[derive(Clone, Debug)]
pub enum End {
    /// iterator returned None
    Done,
    /// iterator yielded Some(Err(_))
    Failed(ErrKind),
    /// a builder call or solve() returned Err at call index
    Build(usize, ErrKind),
    /// more than max_points items
    TooManyPoints,
    /// harness evaluation budget hit inside the derivative
    Budget,
    Panic(String),
}

#[derive(Clone, Debug)]
pub struct Run<N> {
    pub pts: Vec<(f64, Vec<N>)>,
    pub end: End,
    /// items observed after the terminating item when polling `extra_polls` more times
    pub after_end: Vec<String>,
}

#[derive(Debug)]
pub struct Marker(pub usize);
impl fmt::Display for Marker {
    fn fmt(&self, f: &mut fmt::Formatter) -> fmt::Result {
        write!(f, "Marker({})", self.0)
    }
}
impl std::error::Error for Marker {}

#[derive(Debug)]
pub struct BudgetHit;
impl fmt::Display for BudgetHit {
    fn fmt(&self, f: &mut fmt::Formatter) -> fmt::Result {
        write!(f, "harness derivative budget exhausted")
    }
}
impl std::error::Error for BudgetHit {}

/// shared instrumentation of the user derivative
#[derive(Default)]
pub struct Probe {
    pub calls: usize,
    pub budget: usize,
    /// fail at this call number (1-based) with Marker(k)
    pub fail_at: Option<usize>,
    /// what the failing call returns: 0 Marker(k) (a private error type), 1 a boxed library error
    /// (IVPError::MinimumTimeDeltaExceeded, as a derivative that runs a nested solve would forward), 2 a boxed std::fmt::Error
    pub fail_payload: u8,
    pub record: bool,
    pub log: Vec<(f64, Vec<f64>)>,
    pub budget_hit: bool,
}

pub type Deriv<'a, N, D> = Box<dyn FnMut(f64, &[N], &mut ()) -> Result<BVector<N, D>, UserError> + 'a>;

/// wrap a plain right-hand side into the library's derivative signature with instrumentation
pub fn make_deriv<'a, N, D>(dim: usize, probe: Rc<RefCell<Probe>>, rhs: impl Fn(f64, &[N], &mut [N]) + 'a) -> Deriv<'a, N, D>
where
    N: ComplexField<RealField = f64> + Copy,
    D: Dimension,
    DefaultAllocator: Allocator<N, D>,
{
    Box::new(move |t: f64, y: &[N], _: &mut ()| {
        {
            let mut p = probe.borrow_mut();
            p.calls += 1;
            if p.calls > p.budget {
                p.budget_hit = true;
                return Err(Box::new(BudgetHit) as UserError);
            }
            if p.fail_at == Some(p.calls) {
                return Err(match p.fail_payload {
                    1 => Box::new(IVPError::MinimumTimeDeltaExceeded) as UserError,
                    2 => Box::new(std::fmt::Error) as UserError,
                    _ => Box::new(Marker(p.calls)) as UserError,
                });
            }
            if p.record {
                let v: Vec<f64> = y.iter().map(|z| z.real()).collect();
                p.log.push((t, v));
            }
        }
        let mut out = vec![N::zero(); dim];
        rhs(t, y, &mut out);
        Ok(BVector::<N, D>::from_column_slice_generic(D::from_usize(dim), U1::from_usize(1), &out))
    })
}

/// apply builder calls and iterate; generic over the solver type
pub fn drive<'a, S, N, D>(dynamic: bool, dim: usize, calls: &[Call], y0: &[N], deriv: Deriv<'a, N, D>, max_points: usize, extra_polls: usize) -> Run<N>
where
    N: ComplexField<RealField = f64> + Copy,
    D: Dimension,
    DefaultAllocator: Allocator<N, D>,
    S: IVPSolver<'a, D, Field = N, RealField = f64, UserData = (), Error = IVPError, Derivative = Deriv<'a, N, D>>,
{
    let mut deriv = Some(deriv);
    let res = guard(move || {
        let mut run = Run { pts: vec![], end: End::Done, after_end: vec![] };
        let mut b = match if dynamic { S::new_dyn(dim) } else { S::new() } {
            Ok(b) => b,
            Err(e) => {
                run.end = End::Build(0, classify(&e));
                return run;
            }
        };
        for (i, c) in calls.iter().enumerate() {
            let r = match c {
                Call::Tol(v) => b.with_tolerance(*v),
                Call::MaxDt(v) => b.with_maximum_dt(*v),
                Call::MinDt(v) => b.with_minimum_dt(*v),
                Call::Start(v) => b.with_initial_time(*v),
                Call::End(v) => b.with_ending_time(*v),
                Call::Init => b.with_initial_conditions_slice(y0),
                Call::Deriv => match deriv.take() {
                    Some(d) => Ok(b.with_derivative(d)),
                    None => Ok(b),
                },
            };
            b = match r {
                Ok(b) => b,
                Err(e) => {
                    run.end = End::Build(i + 1, classify(&e));
                    return run;
                }
            };
        }
        let mut it = match b.solve(()) {
            Ok(it) => it,
            Err(e) => {
                run.end = End::Build(calls.len() + 1, classify(&e));
                return run;
            }
        };
        loop {
            match it.next() {
                None => {
                    run.end = End::Done;
                    break;
                }
                Some(Ok((t, y))) => {
                    run.pts.push((t, y.iter().cloned().collect()));
                    if run.pts.len() > max_points {
                        run.end = End::TooManyPoints;
                        return run;
                    }
                }
                Some(Err(e)) => {
                    run.end = End::Failed(classify(&e));
                    break;
                }
            }
        }
        for _ in 0..extra_polls {
            match it.next() {
                None => run.after_end.push("None".into()),
                Some(Ok((t, _))) => run.after_end.push(format!("Ok(t={t:e})")),
                Some(Err(e)) => run.after_end.push(format!("Err({:?})", classify(&e))),
            }
        }
        if extra_polls > 0 {
            // the other way of consuming what is left: an iterator that has ended yields nothing through collect_vec either
            match it.collect_vec() {
                Ok(v) if v.is_empty() => {}
                Ok(v) => run.after_end.push(format!("collect_vec after the end returned Ok with {} more point(s)", v.len())),
                Err(e) => run.after_end.push(format!("collect_vec after the end returned Err({:?})", classify(&e))),
            }
        }
        run
    });
    match res {
        Ok(r) => r,
        Err(Caught::Panic(m)) => Run { pts: vec![], end: End::Panic(m), after_end: vec![] },
        Err(Caught::Budget(_)) => Run { pts: vec![], end: End::Budget, after_end: vec![] },
    }
}

/// collect_vec() variant: returns Ok(number of points) or the error kind
pub fn drive_collect<'a, S, N, D>(dynamic: bool, dim: usize, calls: &[Call], y0: &[N], deriv: Deriv<'a, N, D>) -> Result<Result<Vec<(f64, Vec<N>)>, ErrKind>, String>
where
    N: ComplexField<RealField = f64> + Copy,
    D: Dimension,
    DefaultAllocator: Allocator<N, D>,
    S: IVPSolver<'a, D, Field = N, RealField = f64, UserData = (), Error = IVPError, Derivative = Deriv<'a, N, D>>,
{
    let mut deriv = Some(deriv);
    let res = guard(move || -> Result<Vec<(f64, Vec<N>)>, ErrKind> {
        let mut b = if dynamic { S::new_dyn(dim) } else { S::new() }.map_err(|e| classify(&e))?;
        for c in calls {
            b = match c {
                Call::Tol(v) => b.with_tolerance(*v),
                Call::MaxDt(v) => b.with_maximum_dt(*v),
                Call::MinDt(v) => b.with_minimum_dt(*v),
                Call::Start(v) => b.with_initial_time(*v),
                Call::End(v) => b.with_ending_time(*v),
                Call::Init => b.with_initial_conditions_slice(y0),
                Call::Deriv => match deriv.take() {
                    Some(d) => Ok(b.with_derivative(d)),
                    None => Ok(b),
                },
            }
            .map_err(|e| classify(&e))?;
        }
        let it = b.solve(()).map_err(|e| classify(&e))?;
        let path = it.collect_vec().map_err(|e| classify(&e))?;
        Ok(path.into_iter().map(|(t, y)| (t, y.iter().cloned().collect())).collect())
    });
    res.map_err(|c| format!("{c:?}"))
}

/// Dispatch on (solver kind) for a fixed field N and dimension type D.
#[macro_export]
macro_rules! with_solver {
    ($kind:expr, $n:ty, $d:ty, $func:ident ( $($args:expr),* )) => {
        match $kind {
            $crate::drive::SolverKind::Euler => $func::<bacon_sci::ivp::Euler<'_, $n, $d, (), $crate::drive::Deriv<'_, $n, $d>>, $n, $d>($($args),*),
            $crate::drive::SolverKind::RK45 => $func::<bacon_sci::ivp::rk::RungeKutta45<'_, $n, $d, (), $crate::drive::Deriv<'_, $n, $d>>, $n, $d>($($args),*),
            $crate::drive::SolverKind::RK23 => $func::<bacon_sci::ivp::rk::RungeKutta23<'_, $n, $d, (), $crate::drive::Deriv<'_, $n, $d>>, $n, $d>($($args),*),
            $crate::drive::SolverKind::Adams5 => $func::<bacon_sci::ivp::adams::Adams5<'_, $n, $d, (), $crate::drive::Deriv<'_, $n, $d>>, $n, $d>($($args),*),
            $crate::drive::SolverKind::Adams3 => $func::<bacon_sci::ivp::adams::Adams3<'_, $n, $d, (), $crate::drive::Deriv<'_, $n, $d>>, $n, $d>($($args),*),
            $crate::drive::SolverKind::BDF6 => $func::<bacon_sci::ivp::bdf::BDF6<'_, $n, $d, (), $crate::drive::Deriv<'_, $n, $d>>, $n, $d>($($args),*),
            $crate::drive::SolverKind::BDF2 => $func::<bacon_sci::ivp::bdf::BDF2<'_, $n, $d, (), $crate::drive::Deriv<'_, $n, $d>>, $n, $d>($($args),*),
        }
    };
}

/// Real-valued run of `kind` in static dimension `dim` (1..=4) or dynamic dimension.
pub fn run_real(kind: SolverKind, dynamic: bool, dim: usize, calls: &[Call], y0: &[f64], probe: Rc<RefCell<Probe>>, rhs: &dyn Fn(f64, &[f64], &mut [f64]), max_points: usize, extra_polls: usize) -> Run<f64> {
    macro_rules! go {
        ($d:ty) => {{
            let deriv = make_deriv::<f64, $d>(dim, probe.clone(), rhs);
            with_solver!(kind, f64, $d, drive(dynamic, dim, calls, y0, deriv, max_points, extra_polls))
        }};
    }
    if dynamic {
        go!(Dyn)
    } else {
        match dim {
            1 => go!(Const<1>),
            2 => go!(Const<2>),
            3 => go!(Const<3>),
            _ => go!(Const<4>),
        }
    }
}

pub fn collect_real(kind: SolverKind, dynamic: bool, dim: usize, calls: &[Call], y0: &[f64], probe: Rc<RefCell<Probe>>, rhs: &dyn Fn(f64, &[f64], &mut [f64])) -> Result<Result<Vec<(f64, Vec<f64>)>, ErrKind>, String> {
    macro_rules! go {
        ($d:ty) => {{
            let deriv = make_deriv::<f64, $d>(dim, probe.clone(), rhs);
            with_solver!(kind, f64, $d, drive_collect(dynamic, dim, calls, y0, deriv))
        }};
    }
    if dynamic {
        go!(Dyn)
    } else {
        match dim {
            1 => go!(Const<1>),
            2 => go!(Const<2>),
            3 => go!(Const<3>),
            _ => go!(Const<4>),
        }
    }
}

pub type C64 = num_complex::Complex<f64>;

/// Complex-valued run (static dimension 1 or 2)
pub fn run_complex(kind: SolverKind, dim: usize, calls: &[Call], y0: &[C64], probe: Rc<RefCell<Probe>>, rhs: &dyn Fn(f64, &[C64], &mut [C64]), max_points: usize) -> Run<C64> {
    macro_rules! go {
        ($d:ty) => {{
            let deriv = make_deriv::<C64, $d>(dim, probe.clone(), rhs);
            with_solver!(kind, C64, $d, drive(false, dim, calls, y0, deriv, max_points, 0))
        }};
    }
    match dim {
        1 => go!(Const<1>),
        _ => go!(Const<2>),
    }
}

#[allow(dead_code)]
pub fn unused_types() {
    // keep the imports referenced by the macro in use
    let _ = (std::marker::PhantomData::<Euler<'static, f64, Const<1>, (), Deriv<'static, f64, Const<1>>>>,);
    let _ = std::marker::PhantomData::<(RungeKutta45<'static, f64, Const<1>, (), Deriv<'static, f64, Const<1>>>, RungeKutta23<'static, f64, Const<1>, (), Deriv<'static, f64, Const<1>>>)>;
    let _ = std::marker::PhantomData::<(Adams5<'static, f64, Const<1>, (), Deriv<'static, f64, Const<1>>>, Adams3<'static, f64, Const<1>, (), Deriv<'static, f64, Const<1>>>)>;
    let _ = std::marker::PhantomData::<(BDF6<'static, f64, Const<1>, (), Deriv<'static, f64, Const<1>>>, BDF2<'static, f64, Const<1>, (), Deriv<'static, f64, Const<1>>>)>;
}

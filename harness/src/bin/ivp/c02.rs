//! C02 — accepted IVP steps are locally accurate to the requested tolerance.

use crate::c01::{DERIV_BUDGET, MAX_POINTS};
use crate::drive::*;
use crate::methods::*;
use crate::problems::*;
use bverif::engine::*;
use proptest::prelude::*;
use serde::{Deserialize, Serialize};
use std::cell::RefCell;
use std::rc::Rc;

#[derive(Clone, Debug, Serialize, Deserialize)]
pub struct Case {
    pub solver: SolverKind,
    pub problem: Problem,
    pub y0: Vec<f64>,
    pub t0: f64,
    pub tol: f64,
    /// dt_max = frac * cap(tol) / L, frac in [0.3, 1]
    pub frac: f64,
    pub tlen: f64,
    /// linear problems only: the initial distance from the centre is multiplied by 10^amp_exp (solutions of size up
    /// to a few hundred; the tolerance is absolute, so the step cap is computed from tol / 10^amp_exp)
    #[serde(default)]
    pub amp_exp: f64,
    /// 0: dt_min = 1e-7 dt_max; otherwise dt_min = 10^min_exp dt_max with min_exp in [-3,-1] (a minimum step the
    /// final remainder can fall below; the solve may then end with MinimumTimeDeltaExceeded, which is not judged here)
    #[serde(default)]
    pub min_exp: f64,
}

pub const K_RK: f64 = 100.0;
pub const K_BDF: f64 = 20.0;

pub fn run_case(case: &Case) -> Outcome {
    let mut o = Obs::new();
    let Some(cp) = case.problem.compile() else { return o.discard("degenerate problem") };
    if case.y0.len() != cp.dim {
        return o.discard("dimension mismatch");
    }
    let solver = case.solver;
    let (y0, amp): (Vec<f64>, f64) = match (&case.problem, case.amp_exp > 0.0) {
        (Problem::Lin { center, .. }, true) => {
            // keep tol / amplitude >= 1e-12 (the bound has to stay above the rounding of a solution of that size)
            let m = 10f64.powf(case.amp_exp).min(case.tol / 1e-12).max(1.0);
            (case.y0.iter().zip(center).map(|(y, c)| c + m * (y - c)).collect(), m)
        }
        _ => (case.y0.clone(), 1.0),
    };
    if amp > 1.0 {
        o.label("amplified");
        if amp >= 30.0 {
            o.label("large-amplitude");
        }
    }
    // the reference flow for the generic family is accurate to ~1e-13: tolerances >= 1e-9 only
    let tol = if cp.p.has_closed_form() { case.tol } else { case.tol.max(1e-9) };
    let l = cp.rate;
    let dt_max = case.frac * solver.step_cap(tol / amp) / l;
    // bound the path length (steps) so that a case stays cheap
    let t_len = case.tlen.min(40_000.0 * dt_max).max(12.0 * dt_max);
    // The step cap of the quantifier ("the terms the estimator cannot see are themselves below the tolerance")
    // is stated for solutions of unit size; a linear problem with a growing mode reaches cond |y0 - c| e^{mu T}
    // over the interval, so the cap is computed from the tolerance divided by that size as well.
    let reach = match &case.problem {
        Problem::Lin { center, .. } => {
            let d0 = y0.iter().zip(center).map(|(a, b)| (a - b) * (a - b)).sum::<f64>().sqrt();
            (cp.cond * d0 * (cp.growth * t_len).exp()).max(1.0)
        }
        _ => 1.0,
    };
    if reach > 4.0 * amp.max(1.0) {
        o.label("growing-solution");
    }
    let dt_max = dt_max.min(case.frac * solver.step_cap(tol / reach.max(amp)) / l);
    let dt_min = if case.min_exp < 0.0 { 10f64.powf(case.min_exp) * dt_max } else { 1e-7 * dt_max };
    if case.min_exp < 0.0 {
        o.label("coarse-minimum-step");
    }
    let cfg = Cfg { solver, t0: case.t0, t_end: case.t0 + t_len, dt_min, dt_max, tol };
    o.label(solver.name());
    o.label(cp.p.class());
    o.set("dt_max", dt_max);
    o.set("tol", tol);
    if dt_max > 1.0 {
        o.label("steps-above-one");
    }
    let probe = Rc::new(RefCell::new(Probe { budget: DERIV_BUDGET * 4, ..Default::default() }));
    let rhs = |t: f64, y: &[f64], out: &mut [f64]| cp.f(t, y, out);
    let run = run_real(solver, false, cp.dim, &cfg.calls(), &y0, probe.clone(), &rhs, MAX_POINTS, 0);
    o.set("points", run.pts.len());
    match &run.end {
        End::Done => {}
        End::Failed(ErrKind::UserError(_)) if probe.borrow().budget_hit => return o.discard("derivative budget exhausted"),
        End::Failed(k) => {
            // completion is C05's claim; the steps yielded before the error are still judged
            o.label(format!("err-{k:?}"));
        }
        End::Build(i, k) => return o.fail(format!("valid configuration rejected at builder call {i}: {k:?}")),
        End::TooManyPoints | End::Budget => return o.discard("budget"),
        End::Panic(m) => return o.fail(format!("panicked: {m}")),
    }
    let mut prev_t = cfg.t0;
    let mut prev_y = y0.clone();
    let mut worst: f64 = 0.0;
    let mut capped = 0usize;
    for (i, (t, y)) in run.pts.iter().enumerate() {
        let h = t - prev_t;
        if !(h > 0.0) || !y.iter().all(|v| v.is_finite()) {
            return o.fail(format!("malformed path at point #{i}"));
        }
        let Some(exact) = cp.flow(prev_t, &prev_y, *t) else { return o.discard("reference flow did not converge") };
        let err = dist2(&exact, y);
        let floor = 64.0 * EPS * (1.0 + y.iter().map(|v| v.abs()).sum::<f64>());
        let bound = if solver.is_bdf() { K_BDF * tol } else { K_RK * tol * h } + floor;
        worst = worst.max(err / bound);
        if !(err <= bound) {
            return o.fail(format!(
                "{} step #{i} from t = {prev_t:e} (h = {h:e}): the yielded state is {err:e} away from the exact solution restarted at the previous point; allowed {} = {bound:e}",
                solver.name(),
                if solver.is_bdf() { format!("{K_BDF} tol") } else { format!("{K_RK} tol h") }
            ));
        }
        if h >= 0.98 * dt_max {
            capped += 1;
        }
        prev_t = *t;
        prev_y = y.clone();
    }
    o.set(&format!("ratio_local_{}", solver.name()), worst);
    o.set("capped_fraction", if run.pts.is_empty() { 0.0 } else { capped as f64 / run.pts.len() as f64 });
    // the final step is clipped anyway: it does not count as estimator-limited
    let limited = capped + 1 < run.pts.len();
    if limited {
        o.label("estimator-limited");
    }
    o.nontrivial = run.pts.len() >= 10 && limited;
    o.pass()
}

fn strategy(_t: Tier) -> BoxedStrategy<Case> {
    (proptest::sample::select(&ADAPTIVE[..]), problem_any(), prop_oneof![1 => Just(0.0), 3 => gen::fl(-2.0, 2.0)], gen::logu(-10.0, -3.0), gen::fl(0.3, 1.0), gen::fl(1.0, 4.0), (prop_oneof![3 => Just(0.0), 1 => gen::fl(0.0, 2.0), 1 => gen::fl(2.0, 3.0)], prop_oneof![3 => Just(0.0), 1 => gen::fl(-3.0, -1.0)]))
        .prop_map(|(solver, (problem, y0), t0, tol, frac, tlen, (amp_exp, min_exp))| Case { solver, problem, y0, t0, tol, frac, tlen, amp_exp, min_exp })
        // one case in six on a slow time axis: the problem stretched by 10^[1,3.3] (all rates divided by it), start and
        // length stretched with it - maximal steps far above 1
        .prop_flat_map(|case| (Just(case), prop_oneof![5 => Just(0.0), 1 => gen::fl(1.0, 3.3)]))
        .prop_map(|(mut case, e)| {
            if e > 0.0 {
                let s = 10f64.powf(e);
                case.problem = scale_time(case.problem, s);
                case.t0 *= s;
                case.tlen *= s;
            }
            case
        })
        .boxed()
}

pub fn run(opts: &Opts) -> i32 {
    let mut spec = Spec::new("C02", strategy, run_case);
    for solver in ADAPTIVE {
        for (problem, y0) in crate::c01::sweep_problems() {
            spec.enumerated.push(Case { solver, problem, y0, t0: 0.0, tol: 1e-6, frac: 0.7, tlen: 2.0, amp_exp: 0.0, min_exp: 0.0 });
        }
    }
    spec.cases = opts.tier.pick(3_000, 60_000);
    spec.essential = vec![("estimator-limited", 0.15), ("generic", 0.1), ("lin", 0.2), ("bdf6", 0.1), ("rk23", 0.1)];
    spec.max_discard_frac = 0.1;
    spec.rule = format!("generated: six adaptive solvers x problem family P (closed-form flows; generic family with a harness-side 3-stage Gauss-Legendre reference flow accurate to 1e-13 and tolerances >= 1e-9) x tolerance 10^[-10,-3] x dt_max = U(0.3,1) cap(tol)/L with cap = 2 tol^(1/5) (RK45, Adams5, BDF6) or tol^(1/3) (RK23, Adams3, BDF2), L = max(Lipschitz constant, forcing frequencies) x dt_min = 1e-7 dt_max (a quarter of the cases 10^[-3,-1] dt_max: the final remainder can fall below the minimum step) x length 1-4 (at most 40000 maximal steps); one case in six on a time axis stretched by 10^[1,3.3] (all rates divided by the factor, start and length multiplied: maximal steps far above 1); two fifths of the linear problems start 10^[0,3] times further from their centre (solutions of size up to several hundred; the step cap is then computed from tol / that factor, the bound stays absolute); for linear problems with growing modes the cap also uses tol / (cond |y0-c| e^(mu T)). Oracle: for every consecutive pair of yielded points |y_(n+1) - Phi(t_n, y_n; t_(n+1))|_2 <= {K_RK} tol h + floor (RK, Adams) or {K_BDF} tol + floor (BDF), floor = 64 eps (1 + |y|_1). Non-trivial = path with >= 10 steps of which at least one is below the step cap. Distinct = distinct case JSON.");
    spec.max_shrink_iters = 200;
    run_spec(spec, opts)
}

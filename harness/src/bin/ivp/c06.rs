//! C06 — IVP builders validate input; user errors end iteration exactly once.
//! Exhaustive small scope over builder-call sequences against a reference model of the builder
//! contract, and fault enumeration over the call number at which the user's derivative fails.

use crate::c01::{check_path, sweep_problems};
use crate::drive::*;
use crate::problems::*;
use bverif::engine::*;
use proptest::prelude::*;
use serde::{Deserialize, Serialize};
use std::cell::RefCell;
use std::rc::Rc;

#[derive(Clone, Debug, Serialize, Deserialize)]
pub enum Case {
    /// `code`: base-17 encoding of the symbol sequence, `len` symbols; `complete`: append the missing
    /// mandatory calls with valid values before solve
    Builder { solver: SolverKind, dynamic: bool, len: u8, code: u32, complete: bool },
    /// longer generated sequences
    BuilderSeq { solver: SolverKind, dynamic: bool, seq: Vec<u8>, complete: bool },
    /// dimension misuse: new() on a dynamic dimension / new_dyn() on a static one
    DimMisuse { solver: SolverKind, dynamic_type: bool },
    /// a complete valid configuration with exactly one mandatory call left out (index into the
    /// canonical call list), the remaining calls rotated by `rot`: must give MissingParameters at solve
    MissingOne { solver: SolverKind, dynamic: bool, missing: u8, rot: u8 },
    /// the derivative fails at call number k of configuration `cfg`; `payload`: 0 a private error type Marker(k),
    /// 1 a boxed IVPError (what a derivative running a nested solve forwards with `?`), 2 a boxed std::fmt::Error
    Fault {
        solver: SolverKind,
        cfg: u8,
        k: usize,
        #[serde(default)]
        payload: u8,
    },
}

const NSYM: u32 = 17;
const T_A: f64 = 0.0;
const T_B: f64 = 1.5;

/// extended alphabet (generated and specially enumerated sequences only): spans shorter than the step bounds,
/// step bounds longer than the span
const NSYM_EXT: u8 = 25;

fn sym_call(s: u8) -> Call {
    match s {
        17 => return Call::End(T_A + 0.005),
        18 => return Call::Start(T_B - 0.005),
        19 => return Call::MinDt(2.0),
        20 => return Call::MaxDt(2.0),
        21 => return Call::End(T_A + 9.313225746154785e-10), // 2^-30: sums with the other times stay exact
        22 => return Call::Tol(1e-9),
        23 => return Call::MinDt(1e-18), // below the floating-point spacing of every non-zero time used here
        24 => return Call::MinDt(f64::MIN_POSITIVE),
        _ => {}
    }
    match s % NSYM as u8 {
        0 => Call::Tol(1e-4),
        1 => Call::Tol(0.0),
        2 => Call::Tol(-1e-4),
        3 => Call::MaxDt(0.01),
        4 => Call::MaxDt(0.5),
        5 => Call::MaxDt(0.0),
        6 => Call::MaxDt(-0.1),
        7 => Call::MinDt(0.01),
        8 => Call::MinDt(0.5),
        9 => Call::MinDt(0.0),
        10 => Call::MinDt(-0.1),
        11 => Call::Start(T_A),
        12 => Call::Start(T_B),
        13 => Call::End(T_A),
        14 => Call::End(T_B),
        15 => Call::Init,
        _ => Call::Deriv,
    }
}

#[derive(Default, Clone, Debug)]
struct Model {
    tol: Option<f64>,
    dt_min: Option<f64>,
    dt_max: Option<f64>,
    /// Euler: the single step (running average of everything set)
    dt: Option<f64>,
    start: Option<f64>,
    end: Option<f64>,
    init: bool,
    deriv: bool,
    overwrote: bool,
    crossed: bool,
}

impl Model {
    /// reference model of one builder call; Err = the dedicated error kind
    fn apply(&mut self, euler: bool, c: &Call) -> Result<(), ErrKind> {
        match c {
            Call::Tol(v) => {
                if euler {
                    return Ok(()); // documented no-op
                }
                if *v <= 0.0 {
                    return Err(ErrKind::ToleranceOOB);
                }
                self.overwrote |= self.tol.is_some();
                self.tol = Some(*v);
            }
            Call::MaxDt(v) | Call::MinDt(v) => {
                if *v <= 0.0 {
                    return Err(ErrKind::TimeDeltaOOB);
                }
                if euler {
                    self.overwrote |= self.dt.is_some();
                    self.dt = Some(match self.dt {
                        Some(d) => (d + v) / 2.0,
                        None => *v,
                    });
                } else if matches!(c, Call::MaxDt(_)) {
                    self.overwrote |= self.dt_max.is_some();
                    self.dt_max = Some(*v);
                    if let Some(m) = self.dt_min {
                        if m > *v {
                            self.dt_min = Some(*v);
                            self.crossed = true;
                        }
                    }
                } else {
                    self.overwrote |= self.dt_min.is_some();
                    self.dt_min = Some(*v);
                    if let Some(m) = self.dt_max {
                        if m < *v {
                            self.dt_max = Some(*v);
                            self.crossed = true;
                        }
                    }
                }
            }
            Call::Start(s) => {
                self.overwrote |= self.start.is_some();
                self.start = Some(*s);
                if let Some(e) = self.end {
                    if e <= *s {
                        return Err(ErrKind::TimeStartOOB);
                    }
                }
            }
            Call::End(e) => {
                self.overwrote |= self.end.is_some();
                self.end = Some(*e);
                if let Some(s) = self.start {
                    if s >= *e {
                        return Err(ErrKind::TimeEndOOB);
                    }
                }
            }
            Call::Init => {
                self.overwrote |= self.init;
                self.init = true;
            }
            Call::Deriv => {
                self.overwrote |= self.deriv;
                self.deriv = true;
            }
        }
        Ok(())
    }
    fn complete(&self, euler: bool) -> bool {
        self.start.is_some() && self.end.is_some() && self.init && self.deriv && if euler { self.dt.is_some() } else { self.tol.is_some() && self.dt_min.is_some() && self.dt_max.is_some() }
    }
    /// the calls that make the configuration complete, with values that keep it valid
    fn completion(&self, euler: bool) -> Vec<Call> {
        let mut v = vec![];
        if !euler && self.tol.is_none() {
            v.push(Call::Tol(1e-4));
        }
        if euler {
            if self.dt.is_none() {
                v.push(Call::MaxDt(0.05));
            }
        } else {
            if self.dt_max.is_none() {
                v.push(Call::MaxDt(0.1));
            }
            if self.dt_min.is_none() {
                v.push(Call::MinDt(0.001));
            }
        }
        match (self.start, self.end) {
            (None, None) => {
                v.push(Call::Start(T_A));
                v.push(Call::End(T_B));
            }
            (Some(s), None) => v.push(Call::End(s + 1.0)),
            (None, Some(e)) => v.push(Call::Start(e - 1.0)),
            _ => {}
        }
        if !self.init {
            v.push(Call::Init);
        }
        if !self.deriv {
            v.push(Call::Deriv);
        }
        v
    }
}

fn decode(len: u8, mut code: u32) -> Vec<u8> {
    let mut v = vec![];
    for _ in 0..len {
        v.push((code % NSYM) as u8);
        code /= NSYM;
    }
    v
}

fn run_builder(solver: SolverKind, dynamic: bool, seq: &[u8], complete: bool, mut o: Obs) -> Outcome {
    let euler = solver == SolverKind::Euler;
    o.label("builder");
    o.label(solver.name());
    o.label(if dynamic { "dynamic" } else { "static" });
    // the model
    let mut model = Model::default();
    let mut calls: Vec<Call> = seq.iter().map(|s| sym_call(*s)).collect();
    let mut expected: Option<(usize, ErrKind)> = None;
    for (i, c) in calls.iter().enumerate() {
        if let Err(k) = model.apply(euler, c) {
            expected = Some((i + 1, k));
            break;
        }
    }
    if expected.is_none() && complete {
        let extra = model.completion(euler);
        let base = calls.len();
        for (i, c) in extra.iter().enumerate() {
            if let Err(k) = model.apply(euler, c) {
                expected = Some((base + i + 1, k));
                break;
            }
        }
        calls.extend(extra);
    }
    if let Some((i, _)) = &expected {
        calls.truncate(*i);
    }
    let builds = expected.is_none() && model.complete(euler);
    if expected.is_none() && !builds {
        expected = Some((calls.len() + 1, ErrKind::MissingParameters));
    }
    if model.overwrote {
        o.label("overwrite");
    }
    if model.crossed {
        o.label("min-max-crossing");
    }
    o.nontrivial = builds && (model.overwrote || model.crossed);
    // the implementation, on y' = 0 and y' = -y
    for decay in [0.0, 1.0] {
        let probe = Rc::new(RefCell::new(Probe { budget: 2_000_000, ..Default::default() }));
        let rhs = move |_t: f64, y: &[f64], out: &mut [f64]| out[0] = -decay * y[0];
        let run = run_real(solver, dynamic, 1, &calls, &[1.0], probe.clone(), &rhs, 200_000, 2);
        match (&expected, &run.end) {
            (_, End::Panic(m)) => return o.fail(format!("builder sequence {calls:?} panicked: {m}")),
            (Some((i, k)), End::Build(j, kk)) => {
                if i != j || k != kk {
                    return o.fail(format!("builder sequence {calls:?}: the reference model rejects call {i} with {k:?}, the implementation rejects call {j} with {kk:?}"));
                }
                o.label(format!("rejected-{k:?}"));
                return o.pass();
            }
            (Some((i, k)), other) => return o.fail(format!("builder sequence {calls:?}: the reference model rejects call {i} with {k:?}, the implementation accepted it ({other:?})")),
            (None, End::Build(j, kk)) => return o.fail(format!("complete valid configuration {calls:?} was rejected at call {j} with {kk:?}")),
            (None, End::Done) => {
                let (dt_min, dt_max) = if euler { (model.dt.unwrap(), model.dt.unwrap()) } else { (model.dt_min.unwrap(), model.dt_max.unwrap()) };
                if !(dt_min <= dt_max) {
                    return o.fail("reference model inconsistent");
                }
                let cfg = Cfg { solver, t0: model.start.unwrap(), t_end: model.end.unwrap(), dt_min, dt_max, tol: model.tol.unwrap_or(1.0) };
                if let Err(m) = check_path(solver, &cfg, model.dt.unwrap_or(0.0), 1, &[1.0], &run.pts, true) {
                    return o.fail(format!("configuration {calls:?} (effective steps [{dt_min:e}, {dt_max:e}]) on y' = {}: {m}", if decay == 0.0 { "0" } else { "-y" }));
                }
                if run.after_end.iter().any(|s| s != "None") {
                    return o.fail(format!("iterator yields {:?} after completion", run.after_end));
                }
            }
            (None, End::Failed(k)) => {
                // y' = 0: the error estimate vanishes, so a failure to step means minimum > maximum was left behind
                if decay == 0.0 || !matches!(k, ErrKind::MinimumTimeDeltaExceeded) {
                    return o.fail(format!("configuration {calls:?} built, but solving y' = {} reported {k:?}", if decay == 0.0 { "0" } else { "-y" }));
                }
                o.label("min-dt-on-decay");
            }
            (None, End::TooManyPoints) | (None, End::Budget) => {
                // Euler's single step is whatever was set (a "minimum step" of 1e-18 is its step): a path of more points
                // than the harness collects is then the documented behaviour, not an unbounded one
                let span = model.end.unwrap() - model.start.unwrap();
                if euler && span / model.dt.unwrap() > 150_000.0 {
                    o.label("euler-tiny-step");
                    continue;
                }
                return o.fail(format!("configuration {calls:?}: unbounded path"));
            }
        }
    }
    o.label("built");
    o.pass()
}

// ------------------------------------------------------------------------------------------------
// fault enumeration

/// ten fixed configurations per solver: (problem index, k (interval in first steps), tol, dt_max, min_exp)
const FAULT_CFGS: [(usize, f64, f64, f64, f64); 10] = [
    (0, 0.7, 1e-6, 0.05, 3.0),
    (1, 2.3, 1e-6, 0.05, 3.0),
    (2, 5.4, 1e-5, 0.1, 4.0),
    (3, 12.3, 1e-6, 0.05, 3.0),
    (3, 9.0, 1e-9, 0.2, 6.0),
    (1, 30.5, 1e-8, 0.1, 5.0),
    (2, 3.000000000001, 1e-4, 0.02, 2.0),
    (0, 8.0, 1e-10, 0.3, 7.0),
    (3, 4.5, 1e-3, 0.3, 1.0),
    (1, 16.2, 1e-7, 0.03, 0.0),
];

fn fault_setup(solver: SolverKind, idx: u8) -> (Cfg, Vec<Call>, Compiled, Vec<f64>) {
    let (pi, k, tol, dt_max, min_exp) = FAULT_CFGS[idx as usize % FAULT_CFGS.len()];
    let (problem, y0) = sweep_problems()[pi].clone();
    let cp = problem.compile().unwrap();
    let dt_min = dt_max * 10f64.powf(-min_exp);
    let dt0 = 0.5 * (dt_max + dt_min);
    let cfg = Cfg { solver, t0: 0.25, t_end: 0.25 + k * dt0, dt_min, dt_max, tol };
    let calls = if solver == SolverKind::Euler { vec![Call::MaxDt(dt0), Call::Start(cfg.t0), Call::End(cfg.t_end), Call::Init, Call::Deriv] } else { cfg.calls() };
    (cfg, calls, cp, y0)
}

/// number of derivative calls of the fault-free reference run
pub fn fault_reference_calls(solver: SolverKind, idx: u8) -> usize {
    let (_, calls, cp, y0) = fault_setup(solver, idx);
    let probe = Rc::new(RefCell::new(Probe { budget: 5_000_000, ..Default::default() }));
    let rhs = |t: f64, y: &[f64], out: &mut [f64]| cp.f(t, y, out);
    let _ = run_real(solver, false, cp.dim, &calls, &y0, probe.clone(), &rhs, 1_000_000, 0);
    let n = probe.borrow().calls;
    n
}

fn run_fault(solver: SolverKind, idx: u8, k: usize, payload: u8, mut o: Obs) -> Outcome {
    o.label("fault");
    // what the surfaced user error must display
    let expect = match payload {
        1 => {
            o.label("fault-payload-library-error");
            bacon_sci::ivp::IVPError::MinimumTimeDeltaExceeded.to_string()
        }
        2 => {
            o.label("fault-payload-std-error");
            std::fmt::Error.to_string()
        }
        _ => format!("Marker({k})"),
    };
    o.label(solver.name());
    let (_, calls, cp, y0) = fault_setup(solver, idx);
    let rhs = |t: f64, y: &[f64], out: &mut [f64]| cp.f(t, y, out);
    // reference run
    let probe = Rc::new(RefCell::new(Probe { budget: 5_000_000, ..Default::default() }));
    let reference = run_real(solver, false, cp.dim, &calls, &y0, probe.clone(), &rhs, 1_000_000, 0);
    let total = probe.borrow().calls;
    if k == 0 || k > total {
        return o.discard("fault position beyond the reference run");
    }
    o.set("reference_calls", total);
    o.set("reference_points", reference.pts.len());
    // faulty run
    let fprobe = Rc::new(RefCell::new(Probe { budget: 5_000_000, fail_at: Some(k), fail_payload: payload, ..Default::default() }));
    let run = run_real(solver, false, cp.dim, &calls, &y0, fprobe.clone(), &rhs, 1_000_000, 5);
    o.set("points_before_error", run.pts.len());
    o.nontrivial = true;
    let s = solver.startup_steps();
    if s > 0 && run.pts.is_empty() {
        o.label("fault-before-first-yield");
    }
    if run.pts.len() + 2 >= reference.pts.len() {
        o.label("fault-near-end");
    }
    match &run.end {
        End::Failed(ErrKind::UserError(msg)) => {
            if !msg.contains(&expect) {
                return o.fail(format!("the derivative failed at call {k} with an error displaying {expect:?}, but the iterator reported a user error displaying {msg:?}"));
            }
        }
        End::Panic(m) => return o.fail(format!("panicked: {m}")),
        other => return o.fail(format!("the derivative failed at call {k} of {total} (payload {expect:?}), but the iterator ended with {other:?} instead of Err(UserError) carrying it")),
    }
    // bit-identical prefix
    if run.pts.len() > reference.pts.len() {
        return o.fail("more points before the error than in the fault-free run");
    }
    for (i, (a, b)) in run.pts.iter().zip(reference.pts.iter()).enumerate() {
        if a.0.to_bits() != b.0.to_bits() || a.1.iter().zip(b.1.iter()).any(|(x, y)| x.to_bits() != y.to_bits()) {
            return o.fail(format!("point #{i} before the error differs from the fault-free run: t = {:e} vs {:e}", a.0, b.0));
        }
    }
    // exactly once: nothing but None afterwards, and no further derivative calls
    if run.after_end.iter().any(|s| s != "None") {
        return o.fail(format!("after the error item the iterator yields {:?}", run.after_end));
    }
    let after = fprobe.borrow().calls;
    if after != k {
        return o.fail(format!("the derivative was called {} more time(s) after it had failed at call {k}", after - k));
    }
    // collect_vec on a fresh identical run
    let cprobe = Rc::new(RefCell::new(Probe { budget: 5_000_000, fail_at: Some(k), fail_payload: payload, ..Default::default() }));
    match collect_real(solver, false, cp.dim, &calls, &y0, cprobe, &rhs) {
        Ok(Err(ErrKind::UserError(msg))) if msg.contains(&expect) => {}
        other => return o.fail(format!("collect_vec with the derivative failing at call {k} returned {other:?}")),
    }
    o.pass()
}

pub fn run_case(case: &Case) -> Outcome {
    let mut o = Obs::new();
    match case {
        Case::Builder { solver, dynamic, len, code, complete } => run_builder(*solver, *dynamic, &decode(*len, *code), *complete, o),
        Case::BuilderSeq { solver, dynamic, seq, complete } => {
            o.label("long-sequence");
            run_builder(*solver, *dynamic, seq, *complete, o)
        }
        Case::DimMisuse { solver, dynamic_type } => {
            o.label("dim-misuse");
            o.nontrivial = true;
            // new() on Dyn / new_dyn() on Const: run_real(dynamic = flag) picks the type from the flag, so the
            // misuse is driven through the dedicated helper below
            let r = crate::c06::misuse(*solver, *dynamic_type);
            match r {
                Ok(k) => {
                    let want = if *dynamic_type { ErrKind::StaticOnDynamic } else { ErrKind::DynamicOnStatic };
                    if k == want {
                        o.pass()
                    } else {
                        o.fail(format!("dimension misuse reported {k:?}, expected {want:?}"))
                    }
                }
                Err(m) => o.fail(m),
            }
        }
        Case::Fault { solver, cfg, k, payload } => run_fault(*solver, *cfg, *k, *payload, o),
        Case::MissingOne { solver, dynamic, missing, rot } => {
            o.label("missing-one");
            o.label(solver.name());
            o.nontrivial = true;
            let euler = *solver == SolverKind::Euler;
            let mut calls = if euler {
                vec![Call::MaxDt(0.05), Call::Start(T_A), Call::End(T_B), Call::Init, Call::Deriv]
            } else {
                vec![Call::Tol(1e-4), Call::MaxDt(0.1), Call::MinDt(0.001), Call::Start(T_A), Call::End(T_B), Call::Init, Call::Deriv]
            };
            let m = *missing as usize % calls.len();
            let left_out = calls.remove(m);
            let r = *rot as usize % calls.len();
            calls.rotate_left(r);
            let probe = Rc::new(RefCell::new(Probe { budget: 1_000_000, ..Default::default() }));
            let rhs = |_t: f64, y: &[f64], out: &mut [f64]| out[0] = -y[0];
            let run = run_real(*solver, *dynamic, 1, &calls, &[1.0], probe, &rhs, 100_000, 0);
            match &run.end {
                End::Build(i, ErrKind::MissingParameters) if *i == calls.len() + 1 => o.pass(),
                End::Panic(m) => o.fail(format!("configuration without {left_out:?} panicked at solve: {m}")),
                other => o.fail(format!("configuration {calls:?} lacks the mandatory {left_out:?}; solve must report MissingParameters but the run ended with {other:?} after {} points", run.pts.len())),
            }
        }
    }
}

/// new() on a dynamically sized builder type (dynamic_type = true) or new_dyn(2) on a static one
pub fn misuse(solver: SolverKind, dynamic_type: bool) -> Result<ErrKind, String> {
    use bacon_sci::ivp::IVPSolver;
    use nalgebra::{Const, Dyn};
    fn probe_new<'a, S, N, D>(use_dyn_ctor: bool) -> Result<ErrKind, String>
    where
        N: nalgebra::ComplexField<RealField = f64> + Copy,
        D: bacon_sci::Dimension,
        nalgebra::DefaultAllocator: nalgebra::allocator::Allocator<N, D>,
        S: IVPSolver<'a, D, Field = N, RealField = f64, UserData = (), Error = bacon_sci::ivp::IVPError, Derivative = Deriv<'a, N, D>>,
    {
        match guard(|| if use_dyn_ctor { S::new_dyn(2).map(|_| ()) } else { S::new().map(|_| ()) }) {
            Ok(Ok(())) => Err("constructor accepted the wrong kind of dimension".into()),
            Ok(Err(e)) => Ok(classify(&e)),
            Err(c) => Err(format!("constructor panicked: {c:?}")),
        }
    }
    if dynamic_type {
        with_solver!(solver, f64, Dyn, probe_new(false))
    } else {
        with_solver!(solver, f64, Const<2>, probe_new(true))
    }
}

fn strategy(_t: Tier) -> BoxedStrategy<Case> {
    let long = (proptest::sample::select(&ALL_SOLVERS[..]), any::<bool>(), proptest::collection::vec(prop_oneof![4 => 0u8..NSYM as u8, 1 => NSYM as u8..NSYM_EXT], 5..=12), any::<bool>()).prop_map(|(solver, dynamic, seq, complete)| Case::BuilderSeq { solver, dynamic, seq, complete });
    long.boxed()
}

pub fn run(opts: &Opts) -> i32 {
    let mut spec = Spec::new("C06", strategy, run_case);
    spec.level = "fault_enumeration";
    let maxlen = opts.tier.pick(4u8, 5u8);
    for solver in ALL_SOLVERS {
        for dynamic in [false, true] {
            for len in 0..=maxlen {
                let n = NSYM.pow(len as u32);
                for code in 0..n {
                    for complete in [false, true] {
                        // thorough: length-5 sequences only with completion (the incomplete ones all end in MissingParameters)
                        if len == 5 && !complete {
                            continue;
                        }
                        spec.enumerated.push(Case::Builder { solver, dynamic, len, code, complete });
                    }
                }
            }
        }
        for dynamic in [false, true] {
            for missing in 0..7u8 {
                for rot in 0..6u8 {
                    if solver == SolverKind::Euler && (missing >= 5 || rot >= 4) {
                        continue;
                    }
                    spec.enumerated.push(Case::MissingOne { solver, dynamic, missing, rot });
                }
            }
        }
        // complete valid configurations whose span is shorter than the minimum step / whose step bounds exceed the
        // span (extended alphabet): base configuration, one or two extended calls appended, every rotation
        for dynamic in [false, true] {
            for maxdt in [3u8, 4] {
                for e1 in NSYM as u8..NSYM_EXT {
                    for e2 in (NSYM as u8 - 1)..NSYM_EXT {
                        let mut seq = vec![0u8, maxdt, 7, 11, 14, 15, 16, e1];
                        if e2 >= NSYM as u8 {
                            seq.push(e2);
                        }
                        for rot in 0..seq.len() {
                            let mut r = seq.clone();
                            r.rotate_left(rot);
                            spec.enumerated.push(Case::BuilderSeq { solver, dynamic, seq: r, complete: false });
                        }
                    }
                }
            }
        }
        spec.enumerated.push(Case::DimMisuse { solver, dynamic_type: false });
        spec.enumerated.push(Case::DimMisuse { solver, dynamic_type: true });
        // every fault position k of every configuration (up to 400 per configuration, beyond that log-spaced)
        for cfg in 0..FAULT_CFGS.len() as u8 {
            let n = fault_reference_calls(solver, cfg);
            let mut ks: Vec<usize> = (1..=n.min(400)).collect();
            let mut k = 400.0f64;
            while (k as usize) < n {
                k *= 1.07;
                ks.push((k as usize).min(n));
            }
            ks.push(n);
            ks.dedup();
            for k in ks {
                spec.enumerated.push(Case::Fault { solver, cfg, k, payload: 0 });
                // other payload types: the first 80 call numbers (start-up, first multistep steps, first rejections)
                if k <= 80 {
                    spec.enumerated.push(Case::Fault { solver, cfg, k, payload: 1 });
                    if k % 4 == 1 {
                        spec.enumerated.push(Case::Fault { solver, cfg, k, payload: 2 });
                    }
                }
            }
        }
    }
    spec.cases = opts.tier.pick(20_000, 300_000);
    spec.exhaustive = Some(format!("every builder-call sequence of length <= {maxlen} over a 17-symbol alphabet (valid/zero/negative tolerance, small/large/zero/negative maximum and minimum step, two start and two end times, conditions, derivative) x 7 builders x static/dynamic x with/without completion; every fault position k <= min(N, 400) of 10 configurations per solver"));
    spec.rule = "enumerated: all builder-call sequences of the stated length over the 17-symbol alphabet followed by solve, with and without completion by the missing mandatory calls, for the 7 builders in static and dynamic dimension, compared call by call with a reference model of the builder contract (dedicated error kinds, min/max adjustment, Euler's running average, MissingParameters at solve); sequences that build are solved on y' = 0 and y' = -y and must give a C01-valid path within the model's effective step bounds; dimension misuse; every complete configuration with exactly one mandatory call left out (all rotations of the remaining calls) must report MissingParameters at solve; for 10 fixed configurations per solver the derivative fails with a private error Marker(k) at every call number k of the fault-free run (all k <= 400, log-spaced beyond; for k <= 80 also with a boxed library error IVPError::MinimumTimeDeltaExceeded and a boxed std::fmt::Error as payload): the points before the error are a bit-identical prefix, exactly one Err(UserError(payload)) item displaying that payload, then None five times with no further derivative calls, and collect_vec returns the same error. Generated: longer sequences (5-12 calls). Non-trivial = sequences that build after an overwrite or a min/max crossing, every fault case, dimension misuse. Distinct = distinct case JSON.".into();
    spec.assumptions = vec!["reference model of the builder contract as documented in the rustdoc of with_maximum_dt / with_minimum_dt and observed error kinds".into()];
    spec.max_shrink_iters = 2000;
    run_spec(spec, opts)
}

//! C03 — each yielded IVP point is a step of the advertised numerical method.

use crate::c01::{first_estimate, tslack, DERIV_BUDGET, MAX_POINTS};
use crate::drive::*;
use crate::methods::*;
use crate::problems::*;
use bverif::engine::*;
use proptest::prelude::*;
use serde::{Deserialize, Serialize};
use std::cell::RefCell;
use std::rc::Rc;

#[derive(Clone, Debug, Serialize, Deserialize)]
pub struct Case {
    pub solver: SolverKind,
    pub problem: Problem,
    pub y0: Vec<f64>,
    pub t0: f64,
    pub dt_max: f64,
    /// dt_min = dt_max 10^-min_exp; `fixed` forces dt_min = dt_max
    pub min_exp: f64,
    pub fixed: bool,
    /// interval length in units of the first trial step
    pub k: f64,
    pub tol: f64,
    pub recentre: Option<f64>,
}

#[derive(Clone, Debug, PartialEq)]
enum Kind {
    Rk4,
    AdamsPec,
    AdamsPece,
    Bdf,
}

fn equally_spaced(ts: &[f64], h: f64, slack: f64) -> bool {
    ts.windows(2).all(|w| ((w[1] - w[0]) - h).abs() <= 1e-9 * h.abs() + slack)
}

/// harness-side fixed-step trajectory of the advertised method: maximal error estimate along it,
/// and the estimate of the very first trial step
fn reference_estimates(solver: SolverKind, cp: &Compiled, t0: f64, y0: &[f64], d: f64, t_end: f64) -> Option<(f64, f64)> {
    let f = |t: f64, y: &[f64]| cp.fv(t, y);
    let mut t = t0;
    let mut y = y0.to_vec();
    let mut worst: f64 = 0.0;
    let first = first_estimate(solver, cp, t0, y0, d)?;
    let s = solver.startup_steps();
    let mut hist: Vec<(f64, Vec<f64>, Vec<f64>)> = vec![]; // (t, y, derivative used for the history)
    let mut steps = 0usize;
    while t < t_end - 1e-12 * d {
        let h = d.min(t_end - t);
        steps += 1;
        if steps > 200_000 {
            return None;
        }
        match solver {
            SolverKind::RK45 | SolverKind::RK23 => {
                let e = if solver == SolverKind::RK45 { rkf45(&f, t, &y, h) } else { bs23(&f, t, &y, h) };
                worst = worst.max(e.est);
                y = e.y;
            }
            _ => {
                if hist.len() < s || h < d * (1.0 - 1e-9) {
                    // start-up (and the final clipped step): classical RK4
                    y = rk4(&f, t, &y, h).0;
                    let fy = f(t + h, &y);
                    hist.push((t + h, y.clone(), fy));
                } else if solver.is_adams() {
                    let ab = ab_weights(s);
                    let am = am_weights(s);
                    let n = hist.len();
                    let mut pred = y.clone();
                    for (k, w) in ab.iter().enumerate() {
                        for q in 0..pred.len() {
                            pred[q] += h * w * hist[n - 1 - k].2[q];
                        }
                    }
                    let fp = f(t + h, &pred);
                    let mut corr = y.clone();
                    for q in 0..corr.len() {
                        corr[q] += h * am[0] * fp[q];
                    }
                    for (k, w) in am[1..].iter().enumerate() {
                        for q in 0..corr.len() {
                            corr[q] += h * w * hist[n - 1 - k].2[q];
                        }
                    }
                    worst = worst.max(19.0 / 270.0 * dist2(&corr, &pred) / h);
                    y = corr;
                    hist.push((t + h, y.clone(), fp));
                } else {
                    let (hi, lo) = if solver == SolverKind::BDF6 { (6, 5) } else { (2, 1) };
                    let n = hist.len();
                    let solve = |order: usize| -> Vec<f64> {
                        let (a, beta) = bdf_coeffs(order);
                        let mut base = vec![0.0; y.len()];
                        for (j, aj) in a.iter().enumerate() {
                            for q in 0..base.len() {
                                base[q] += aj * hist[n - 1 - j].1[q];
                            }
                        }
                        let mut x = y.clone();
                        for _ in 0..200 {
                            let fx = f(t + h, &x);
                            let nx: Vec<f64> = (0..x.len()).map(|q| base[q] + h * beta * fx[q]).collect();
                            let dd = dist2(&nx, &x);
                            x = nx;
                            if dd <= 1e-15 * (1.0 + norm2(&x)) {
                                break;
                            }
                        }
                        x
                    };
                    let (yh, yl) = (solve(hi), solve(lo));
                    worst = worst.max(dist2(&yh, &yl));
                    y = yh;
                    hist.push((t + h, y.clone(), vec![]));
                }
            }
        }
        t += h;
        if !y.iter().all(|v| v.is_finite()) {
            return None;
        }
    }
    Some((worst, first))
}

/// Transliteration of the library's quasi-Newton solve of the implicit BDF equation (bdf.rs `secant`): start at the
/// previous point, central finite-difference Jacobian with the increment dt, Broyden updates of the inverse, exit as
/// soon as a shift is <= tol - whatever the residual. Used only to attribute the recorded finding K6.
fn broyden_model(g: &dyn Fn(&[f64]) -> Vec<f64>, start: &[f64], dt: f64, tol: f64) -> Option<Vec<f64>> {
    use nalgebra::{DMatrix, DVector};
    let d = start.len();
    let gv = |x: &DVector<f64>| DVector::from_vec(g(x.as_slice()));
    let mut guess = DVector::from_column_slice(start);
    let mut derivative = gv(&guess);
    let mut jac = DMatrix::<f64>::zeros(d, d);
    let denom = (2.0 * dt).recip();
    for ind in 0..d {
        guess[ind] += dt;
        let above = gv(&guess);
        guess[ind] -= 2.0 * dt;
        let below = gv(&guess);
        guess[ind] += dt;
        jac.set_column(ind, &((above - below) * denom));
    }
    let mut jac_inv = jac.clone().lu().try_inverse().or_else(|| jac.clone().full_piv_lu().try_inverse()).or_else(|| jac.qr().try_inverse())?;
    let mut shift = -&jac_inv * &derivative;
    guess += &shift;
    if shift.norm() <= tol {
        return Some(guess.iter().cloned().collect());
    }
    let mut n = 2;
    while n < 1000 {
        let derivative_last = derivative;
        derivative = gv(&guess);
        let difference = &derivative - &derivative_last;
        let adjustment = -&jac_inv * difference;
        let s_transpose = shift.adjoint();
        let p = (-&s_transpose * &adjustment)[(0, 0)];
        let u = s_transpose * &jac_inv;
        jac_inv += (shift + adjustment) * u / p;
        shift = -&jac_inv * &derivative;
        guess += &shift;
        if shift.norm() <= tol {
            return Some(guess.iter().cloned().collect());
        }
        n += 1;
    }
    None
}

pub fn run_case(case: &Case) -> Outcome {
    let mut o = Obs::new();
    let Some(cp) = case.problem.compile() else { return o.discard("degenerate problem") };
    if case.y0.len() != cp.dim {
        return o.discard("dimension mismatch");
    }
    let solver = case.solver;
    let dt_max = case.dt_max;
    let dt_min = if case.fixed { dt_max } else { dt_max * 10f64.powf(-case.min_exp) };
    let dt0 = 0.5 * (dt_max + dt_min);
    let mut tol = case.tol;
    if let Some(fac) = case.recentre {
        if let Some(est) = first_estimate(solver, &cp, case.t0, &case.y0, dt0) {
            if est.is_finite() && est > 1e-13 {
                tol = (est * fac).clamp(1e-12, 1e-1);
            }
        }
    }
    let t_end = case.t0 + case.k * dt0;
    let cfg = Cfg { solver, t0: case.t0, t_end, dt_min, dt_max, tol };
    o.label(solver.name());
    if case.fixed {
        o.label("fixed-step");
    }
    o.set("tol", tol);
    let calls = if solver == SolverKind::Euler { vec![Call::MaxDt(dt0), Call::Start(cfg.t0), Call::End(t_end), Call::Init, Call::Deriv] } else { cfg.calls() };
    let probe = Rc::new(RefCell::new(Probe { budget: DERIV_BUDGET, ..Default::default() }));
    let rhs = |t: f64, y: &[f64], out: &mut [f64]| cp.f(t, y, out);
    let run = run_real(solver, false, cp.dim, &calls, &case.y0, probe.clone(), &rhs, MAX_POINTS, 0);
    o.set("points", run.pts.len());
    let completed = match &run.end {
        End::Done => true,
        End::Failed(ErrKind::UserError(_)) if probe.borrow().budget_hit => return o.discard("derivative budget exhausted"),
        End::Failed(k) => {
            o.label(format!("err-{k:?}"));
            false
        }
        End::Build(i, k) => return o.fail(format!("valid configuration rejected at builder call {i}: {k:?}")),
        End::TooManyPoints | End::Budget => return o.discard("budget"),
        End::Panic(m) => return o.fail(format!("panicked: {m}")),
    };
    let f = |t: f64, y: &[f64]| cp.fv(t, y);
    let slack = tslack(cfg.t0, cfg.t_end);
    // the path including the initial point (index 0); Euler already yields it
    let mut path: Vec<(f64, Vec<f64>)> = vec![];
    if solver != SolverKind::Euler {
        path.push((cfg.t0, case.y0.clone()));
    }
    path.extend(run.pts.iter().cloned());
    if matches!(case.problem, Problem::Quasi { .. }) {
        // y' = -lam (y^2 - c^2) blows up in finite time once an unstable numerical trajectory has been thrown below
        // -|c|: on this class the path is judged up to the first point beyond 1e6 or non-finite (method formulas on
        // overflowing values carry no information); the bounded generic family keeps the strict rule
        if let Some(k) = path.iter().position(|(t, y)| !t.is_finite() || !y.iter().all(|v| v.is_finite() && v.abs() <= 1e6)) {
            o.label("quasi-steady-blow-up");
            path.truncate(k);
            if path.len() < 2 {
                return o.discard("blow-up at the first point");
            }
        }
    }
    if path.iter().any(|(t, y)| !t.is_finite() || !y.iter().all(|v| v.is_finite())) {
        return o.fail("non-finite point");
    }
    let s = solver.startup_steps();
    let mut kinds: Vec<Option<Kind>> = vec![None; path.len()];
    let mut preds: Vec<Vec<Vec<f64>>> = vec![vec![]; path.len()];
    let mut worst_match: f64 = 0.0;
    let mut worst_est: f64 = 0.0;
    let mut worst_bdf: f64 = 0.0;
    let (mut n_rk4, mut n_multi) = (0usize, 0usize);
    for i in 1..path.len() {
        let (tp, yp) = (&path[i - 1].0, &path[i - 1].1);
        let (tn, yn) = (&path[i].0, &path[i].1);
        let h = tn - tp;
        if !(h > 0.0) {
            return o.fail(format!("non-increasing time at point #{i}"));
        }
        let ynorm = norm2(yn);
        match solver {
            SolverKind::Euler => {
                let r = euler_step(&f, *tp, yp, h);
                let fnorm = norm2(&f(*tp, yp));
                let allow = 16.0 * EPS * (ynorm + h * fnorm + tp.abs().max(tn.abs()) * fnorm) + 1e-300;
                let d = dist2(&r, yn);
                worst_match = worst_match.max(d / allow);
                if !(d <= allow) {
                    return o.fail(format!("Euler point #{i} at t = {tn:e}: y_next differs from y + dt f(t,y) by {d:e} (allowed {allow:e})"));
                }
            }
            SolverKind::RK45 | SolverKind::RK23 => {
                let e = if solver == SolverKind::RK45 { rkf45(&f, *tp, yp, h) } else { bs23(&f, *tp, yp, h) };
                let allow = 64.0 * EPS * (ynorm + e.scale + tp.abs().max(tn.abs()) * e.fnorm) + 1e-300;
                let d = dist2(&e.y, yn);
                worst_match = worst_match.max(d / allow);
                if !(d <= allow) {
                    return o.fail(format!("{} point #{i} at t = {tn:e} (h = {h:e}) is not one step of the published scheme from the previous point: distance {d:e} (allowed {allow:e})", solver.name()));
                }
                let eallow = tol * (1.0 + 1e-9) + 64.0 * EPS * e.fnorm;
                worst_est = worst_est.max(e.est / eallow);
                if !(e.est <= eallow) {
                    return o.fail(format!("{} point #{i} at t = {tn:e}: embedded error estimate per unit step {:e} exceeds the tolerance {tol:e}", solver.name(), e.est));
                }
            }
            _ => {
                // (i) classical RK4 step from the previous point
                let (r4, sc) = rk4(&f, *tp, yp, h);
                let fnorm = norm2(&f(*tp, yp));
                let allow4 = 256.0 * EPS * (ynorm + sc + tp.abs().max(tn.abs()) * fnorm) + 1e-300;
                let d4 = dist2(&r4, yn);
                let rk4_ok = d4 <= allow4;
                let mut adams_ok = false;
                if rk4_ok {
                    // margin statistics only from points that can only be start-up steps (later points may be
                    // multistep points that coincide with an RK4 step at rounding level when h is tiny)
                    if i <= s {
                        worst_match = worst_match.max(d4 / allow4);
                    }
                    if !solver.is_adams() {
                        kinds[i] = Some(Kind::Rk4);
                        n_rk4 += 1;
                        continue;
                    }
                }
                let mut reason = format!("RK4 mismatch {d4:e}");
                if solver.is_adams() {
                    // (ii) AB-predict / AM-correct from the s preceding equally spaced points. The history
                    // derivative of a point may be f(t_j, y_j) (PECE, and every Runge-Kutta point) or
                    // f(t_j, predictor_j) (PEC) for points that are themselves explainable as Adams steps; for
                    // small steps a point can be explainable both ways, so all combinations are tried.
                    let mut matched = false;
                    let mut est_fail: Option<f64> = None;
                    if rk4_ok {
                        matched = true;
                    }
                    if i >= s {
                        let ts: Vec<f64> = (i - s..=i).map(|j| path[j].0).collect();
                        if equally_spaced(&ts, h, slack) {
                            let ab = ab_weights(s);
                            let am = am_weights(s);
                            // candidate derivatives per history point (newest first)
                            let cands: Vec<Vec<Vec<f64>>> = (0..s)
                                .map(|k| {
                                    let j = i - 1 - k;
                                    let mut v = vec![f(path[j].0, &path[j].1)];
                                    for p in &preds[j] {
                                        v.push(f(path[j].0, p));
                                    }
                                    v
                                })
                                .collect();
                            let ncombo: usize = cands.iter().map(|c| c.len()).product();
                            let mut best = f64::INFINITY;
                            let mut best_allow = 1.0;
                            let mut best_pred_d = f64::INFINITY;
                            for combo in 0..ncombo.min(256) {
                                let mut idx = combo;
                                let fs: Vec<&Vec<f64>> = cands
                                    .iter()
                                    .map(|c| {
                                        let r = &c[idx % c.len()];
                                        idx /= c.len();
                                        r
                                    })
                                    .collect();
                                let mut pred = yp.clone();
                                for (w, fv) in ab.iter().zip(fs.iter()) {
                                    for q in 0..pred.len() {
                                        pred[q] += h * w * fv[q];
                                    }
                                }
                                let fp = f(*tn, &pred);
                                let mut corr = yp.clone();
                                for q in 0..corr.len() {
                                    corr[q] += h * am[0] * fp[q];
                                }
                                for (w, fv) in am[1..].iter().zip(fs.iter()) {
                                    for q in 0..corr.len() {
                                        corr[q] += h * w * fv[q];
                                    }
                                }
                                let d = dist2(&corr, yn);
                                best = best.min(d);
                                let allow = 1024.0 * EPS * (ynorm + sc + tp.abs().max(tn.abs()) * fnorm) + 1e-300;
                                if d <= allow {
                                    let est = 19.0 / 270.0 * dist2(&corr, &pred) / h;
                                    let eallow = tol * (1.0 + 1e-9) + 64.0 * EPS * fnorm;
                                    if est <= eallow {
                                        worst_est = worst_est.max(est / eallow);
                                        best_allow = allow;
                                        matched = true;
                                        adams_ok = true;
                                        // keep the predictor of the best-matching combination only
                                        if d <= best_pred_d {
                                            best_pred_d = d;
                                            preds[i] = vec![pred];
                                        }
                                    } else {
                                        est_fail = Some(est);
                                    }
                                }
                            }
                            if adams_ok && !rk4_ok {
                                // statistics: the best-matching combination of an unambiguous Adams point
                                worst_match = worst_match.max(best / best_allow);
                                if best / best_allow > 0.1 && std::env::var("C03_DBG").is_ok() {
                                    eprintln!("DBG i={i} h={h:e} tn={tn:e} best={best:e} allow={best_allow:e} ynorm={ynorm:e} sc={sc:e} fnorm={fnorm:e} ncombo={ncombo} case={}", serde_json::to_string(case).unwrap());
                                }
                            }
                            reason = format!("{reason}; best Adams mismatch over {ncombo} derivative-history combinations {best:e}");
                        } else {
                            reason = format!("{reason}; preceding {s} points are not equally spaced");
                        }
                    } else {
                        reason = format!("{reason}; fewer than {s} preceding points");
                    }
                    if !matched {
                        if let Some(est) = est_fail {
                            return o.fail(format!("{} point #{i} at t = {tn:e} is an Adams step whose predictor-corrector estimate {est:e} exceeds the tolerance {tol:e}", solver.name()));
                        }
                        return o.fail(format!("{} point #{i} at t = {tn:e} (h = {h:e}) is neither a classical RK4 step nor the AB/AM update of the preceding points: {reason}", solver.name()));
                    }
                    if adams_ok {
                        n_multi += 1;
                        kinds[i] = Some(Kind::AdamsPec);
                    }
                    if rk4_ok {
                        n_rk4 += 1;
                        if !adams_ok {
                            kinds[i] = Some(Kind::Rk4);
                        }
                    }
                } else {
                    // BDF residual at the new time
                    let order = if solver == SolverKind::BDF6 { 6 } else { 2 };
                    if i >= order {
                        let ts: Vec<f64> = (i - order..=i).map(|j| path[j].0).collect();
                        if equally_spaced(&ts, h, slack) {
                            let (a, beta) = bdf_coeffs(order);
                            let fn_ = f(*tn, yn);
                            let mut res = yn.clone();
                            for q in 0..res.len() {
                                res[q] -= h * beta * fn_[q];
                            }
                            for (j, aj) in a.iter().enumerate() {
                                for q in 0..res.len() {
                                    res[q] -= aj * path[i - 1 - j].1[q];
                                }
                            }
                            let r = norm2(&res);
                            // "to within the solver tolerance": the quasi-Newton iteration stops on a shift <= tol and the shift after
                            // that one is far smaller; largest residual observed on the repaired tree 0.065 tol
                            let allow = tol + 256.0 * EPS * (1.0 + ynorm) * 8.0;
                            if r <= allow {
                                kinds[i] = Some(Kind::Bdf);
                                n_multi += 1;
                                worst_est = worst_est.max(r / allow);
                                worst_bdf = worst_bdf.max(r / tol);
                                continue;
                            }
                            reason = format!("{reason}; BDF{order} residual at the new time {r:e} > {allow:e}");
                            // K6: the library's quasi-Newton solve stops on a small shift whatever the residual. If the
                            // transliterated iteration, started like the library's at the previous point, stops at this
                            // very point, the failure is that recorded finding; anything else is a violation.
                            // same operations in the same order as the library's closure: (-f dt c0 + sum prev c_j) + y
                            let (pathr, ar, fr) = (&path, &a, &f);
                            let gfun = |dt: f64| {
                                let (path, a, f) = (pathr, ar, fr);
                                move |y: &[f64]| -> Vec<f64> {
                                    let fy = f(path[i - 1].0 + dt, y);
                                    let mut out: Vec<f64> = (0..y.len()).map(|q| -fy[q] * dt * beta).collect();
                                    for (j, aj) in a.iter().enumerate() {
                                        for q in 0..out.len() {
                                            out[q] += path[i - 1 - j].1[q] * -aj;
                                        }
                                    }
                                    (0..y.len()).map(|q| out[q] + y[q]).collect()
                                }
                            };
                            // the library's own step length: the observed gap, or the configured maximum step when they
                            // agree to rounding
                            let mut dts = vec![h];
                            if (h - dt_max).abs() <= 1e-12 * dt_max && h != dt_max {
                                dts.push(dt_max);
                            }
                            for dt in dts {
                                let g = gfun(dt);
                                if let Some(ym) = broyden_model(&g, &path[i - 1].1, dt, tol) {
                                    if dist2(&ym, yn) <= 1e-12 * (1.0 + ynorm) {
                                        return o.fail_sig(
                                            format!("{} point #{i} at t = {tn:e} (h = {h:e}) does not satisfy the BDF formula at the new time: {reason}; the library's quasi-Newton iteration stops there on a small shift", solver.name()),
                                            "bdf:quasi-newton-exit-on-small-shift:residual-above-tolerance",
                                        );
                                    }
                                }
                            }
                        } else {
                            reason = format!("{reason}; preceding {order} points are not equally spaced");
                        }
                    } else {
                        reason = format!("{reason}; fewer than {order} preceding points");
                    }
                    return o.fail(format!("{} point #{i} at t = {tn:e} (h = {h:e}) is neither a classical RK4 step nor a solution of the BDF formula at the new time: {reason}", solver.name()));
                }
            }
        }
    }
    o.set(&format!("ratio_match_{}", solver.name()), worst_match);
    o.set("ratio_estimate", worst_est);
    if worst_bdf > 0.0 {
        o.set(&format!("ratio_bdf_residual_over_tol_{}", solver.name()), worst_bdf);
    }
    o.set("rk4_points", n_rk4);
    o.set("multistep_points", n_multi);
    if n_rk4 > 0 {
        o.label("has-startup");
    }
    if n_multi > 0 {
        o.label("has-multistep");
    }
    // accept / reject direction on fixed-step configurations
    if case.fixed && solver != SolverKind::Euler {
        if let Some((worst, first)) = reference_estimates(solver, &cp, cfg.t0, &case.y0, dt_max, t_end) {
            o.set("reference_worst_estimate_over_tol", worst / tol);
            if worst <= tol / 100.0 {
                o.label("must-accept");
                if !completed {
                    return o.fail(format!("every step of the fixed-step reference trajectory has an error estimate <= tol/100 (worst {worst:e}, tol {tol:e}), but the solve reported {:?}", run.end));
                }
                let mut prev = cfg.t0;
                for (i, (t, _)) in run.pts.iter().enumerate() {
                    let g = t - prev;
                    let last = i + 1 == run.pts.len();
                    // the tail may be compressed: the last step is clipped, and a multistep solver that restarts
                    // its start-up within (s+1) steps of the end spreads the start-up steps over the remainder
                    let in_tail = *t >= t_end - (s as f64 + 1.0) * dt_max - slack;
                    if !((g - dt_max).abs() <= 1e-9 * dt_max + slack || ((last || in_tail) && g <= dt_max * (1.0 + 1e-9) + slack)) {
                        return o.fail(format!("estimates are <= tol/100 everywhere, yet the step before t = {t:e} is {g:e} instead of the fixed step {dt_max:e}"));
                    }
                    prev = *t;
                }
            }
            if solver.is_rk() && first > 2.0 * tol && case.k > 1.0 {
                o.label("must-reject");
                if let Some((t1, _)) = run.pts.first() {
                    if (t1 - (cfg.t0 + dt_max)).abs() <= 1e-9 * dt_max + slack {
                        return o.fail(format!("the first trial step has an embedded estimate of {first:e} > tol = {tol:e}, yet it was accepted"));
                    }
                }
            }
        }
    }
    let unequal = {
        let mut g = vec![];
        for w in path.windows(2) {
            g.push(w[1].0 - w[0].0);
        }
        g.windows(2).any(|w| (w[1] - w[0]).abs() > 1e-9 * w[0].abs())
    };
    o.nontrivial = match solver {
        SolverKind::Euler => path.len() >= 3,
        SolverKind::RK45 | SolverKind::RK23 => path.len() >= 3 && (unequal || case.fixed),
        _ => n_rk4 > 0 && n_multi > 0,
    };
    o.pass()
}

fn strategy(_t: Tier) -> BoxedStrategy<Case> {
    (
        proptest::sample::select(&ALL_SOLVERS[..]),
        // one case in ten: a quasi-steady relaxation onto a slowly moving branch, strongly curved in y, in units of the
        // step and the tolerance (scaled below): the implicit solvers' inner iteration starts almost converged
        prop_oneof![9 => problem_generic(), 1 => problem_quasi_units()],
        prop_oneof![1 => Just(0.0), 3 => gen::fl(-2.0, 2.0)],
        gen::logu(-2.5, -0.52),
        gen::fl(0.5, 6.0),
        prop_oneof![3 => Just(false), 1 => Just(true)],
        prop_oneof![2 => gen::fl(0.3, 12.0), 2 => gen::fl(12.0, 60.0)],
        gen::logu(-10.0, -2.0),
        prop_oneof![1 => Just(None), 1 => gen::logu(-0.5, 0.5).prop_map(Some), 1 => gen::logu(-4.0, -2.0).prop_map(Some)],
        // one case in ten on a dyadic grid with a fixed step: start k/4, step 2^-j, whole number of steps - every time
        // addition is exact, so boundary tests such as `time + dt >= end` meet exact equality
        prop_oneof![9 => Just(None), 1 => (-8i32..=8, 2u32..=7, 1u32..=48).prop_map(Some)],
    )
        .prop_map(|(solver, (problem, y0), t0, dt_max, min_exp, fixed, k, tol, recentre, dyadic)| {
            let (dt, t_first) = match dyadic {
                None => (dt_max, t0),
                Some((q, j, _)) => (0.5f64.powi(j as i32), q as f64 * 0.25),
            };
            // the quasi-steady class is for the implicit solvers (an explicit method is unstable on it by design)
            let solver = match (&problem, solver) {
                (Problem::Quasi { .. }, SolverKind::BDF6 | SolverKind::BDF2) => solver,
                (Problem::Quasi { .. }, SolverKind::RK45 | SolverKind::Adams5 | SolverKind::Euler) => SolverKind::BDF6,
                (Problem::Quasi { .. }, _) => SolverKind::BDF2,
                _ => solver,
            };
            let (problem, y0, recentre) = match problem {
                Problem::Quasi { lam, c0, a } => {
                    let lam: Vec<f64> = lam.iter().map(|u| u / (dt * dt)).collect();
                    let c0: Vec<f64> = c0.iter().zip(lam.iter()).map(|(u, l)| u / (l * dt)).collect();
                    // the branch moves by 0.2-4 tolerances per step, but by no more than half its value over the run
                    let steps = match dyadic {
                        None => k,
                        Some((_, _, n)) => n as f64,
                    };
                    let a: Vec<f64> = a.iter().zip(c0.iter()).map(|(u, c)| u.signum() * (u.abs() * tol / dt).min(0.5 * c / (steps.max(1.0) * dt))).collect();
                    // the branch value at the start is c0 (the intercept is shifted accordingly)
                    let c0: Vec<f64> = c0.iter().zip(a.iter()).map(|(c, a)| c - a * t_first).collect();
                    let y0: Vec<f64> = c0.iter().zip(a.iter()).map(|(c, a)| c + a * t_first).collect();
                    (Problem::Quasi { lam, c0, a }, y0, None)
                }
                other => (other, y0, recentre),
            };
            (solver, (problem, y0), t0, dt_max, min_exp, fixed, k, tol, recentre, dyadic)
        })
        .prop_map(|(solver, (problem, y0), t0, dt_max, min_exp, fixed, k, tol, recentre, dyadic)| match dyadic {
            None => Case { solver, problem, y0, t0, dt_max, min_exp, fixed, k, tol, recentre },
            Some((q, j, n)) => Case { solver, problem, y0, t0: q as f64 * 0.25, dt_max: 0.5f64.powi(j as i32), min_exp, fixed: true, k: n as f64, tol, recentre: None },
        })
        .boxed()
}

pub fn run(opts: &Opts) -> i32 {
    let mut spec = Spec::new("C03", strategy, run_case);
    for solver in ALL_SOLVERS {
        for (problem, y0) in crate::c01::sweep_problems() {
            for fixed in [false, true] {
                spec.enumerated.push(Case { solver, problem: problem.clone(), y0: y0.clone(), t0: 0.25, dt_max: 0.05, min_exp: 3.0, fixed, k: 25.3, tol: 1e-6, recentre: None });
            }
        }
    }
    spec.cases = opts.tier.pick(30_000, 800_000);
    spec.essential = vec![("has-startup", 0.2), ("has-multistep", 0.2), ("must-accept", 0.02), ("must-reject", 0.01), ("fixed-step", 0.15), ("rk45", 0.08), ("rk23", 0.08), ("euler", 0.08)];
    spec.max_discard_frac = 0.1;
    spec.rule = "generated: seven solvers x generic non-linear non-autonomous right-hand sides f_i = a sin(w t + y_{i+1}) - b y_i + g y_{i+1} cos(v t)/(1+y_i^2) with random coefficients (dimension 1-4; one case in ten instead a quasi-steady relaxation f_i = -lam (y_i^2 - (c0 + a t)^2) started on its branch, with lam dt^2 in [0.5,8], lam c0 dt in [0.2,1.3] and a branch motion of 0.2-4 tolerances per step (at most half the branch value over the run), BDF solvers only; a path of this class is judged up to the first point beyond 1e6 - the equation itself blows up once an unstable trajectory has left the branch: strongly curved in y, inner iterations that start almost converged) x t0 in [-2,2] x dt_max 10^[-2.5,-0.52] (one case in ten on a dyadic grid with a fixed step: start k/4, step 2^-j, whole number of steps) x dt_min = dt_max 10^-[0.5,6] (a quarter of the cases with dt_min = dt_max: fixed step) x tolerance 10^[-10,-2] (optionally recentred on, or placed far above, the reference estimate of the first trial step) x interval 0.3-60 first trial steps. Oracle: every yielded point is re-derived from the previous yielded points with harness-side reference formulas: Fehlberg 4(5) / Bogacki-Shampine 3(2) step with embedded estimate <= tol; classical RK4 step or AB-predict/AM-correct update (PEC or PECE derivative history, estimate 19/270 |c-p|/h <= tol) for Adams; RK4 step or residual of the BDF formula at the new time <= tol for BDF (a point with a larger residual at which the harness's transliteration of the library's quasi-Newton iteration - exit on a shift <= tol - also stops (to 1e-12 relative) is the recorded finding K6); y + dt f for Euler; fixed-step configurations: all estimates <= tol/100 => Ok with all gaps equal to the step, first estimate > 2 tol => first step not accepted (RK). Non-trivial = paths containing both start-up and multistep points (multistep solvers), >= 3 points with unequal gaps or fixed step (RK), >= 3 points (Euler). Distinct = distinct case JSON.".into();
    spec.max_shrink_iters = 500;
    run_spec(spec, opts)
}

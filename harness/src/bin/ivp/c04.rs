//! C04 — IVP solutions converge to the true solution as tolerance or step shrinks; complex problems
//! are solved as accurately as the equivalent real system; dynamic = static dimension.

use crate::c01::{DERIV_BUDGET, MAX_POINTS};
use crate::drive::*;
use crate::methods::*;
use crate::problems::*;
use bverif::engine::*;
use proptest::prelude::*;
use serde::{Deserialize, Serialize};
use std::cell::RefCell;
use std::rc::Rc;

#[derive(Clone, Debug, Serialize, Deserialize)]
pub enum Case {
    /// tolerance ladder 1e-3 .. 1e-10 (adaptive solvers, closed-form problems)
    Ladder { solver: SolverKind, problem: Problem, y0: Vec<f64>, t0: f64, tlen: f64, frac: f64 },
    /// step ladder h0 2^-j, j = 0..6 (Euler)
    EulerLadder { problem: Problem, y0: Vec<f64>, t0: f64, tlen: f64, h0: f64 },
    /// complex scalar problem vs the equivalent real 2x2 system.
    /// kind 0: y' = (a + i w) y; kind 1: y' = -lam y + amp e^{i w t}
    ComplexPair { solver: SolverKind, kind: u8, a: f64, w: f64, amp: f64, y0: (f64, f64), second: Option<(f64, f64, (f64, f64))>, quadrature: bool, loose: bool, t0: f64, tlen: f64, tol: f64, frac: f64 },
    /// the same real problem through new() and new_dyn(dim)
    DynPair { solver: SolverKind, problem: Problem, y0: Vec<f64>, t0: f64, tlen: f64, tol: f64, frac: f64 },
}

const K_GLOBAL: f64 = 100.0;
const K_GLOBAL_BDF: f64 = 20.0;

fn amplification(cp: &Compiled, dt: f64) -> f64 {
    cp.cond * (cp.growth * dt).exp().max(1.0)
}

fn exec(solver: SolverKind, cp: &Compiled, cfg: &Cfg, y0: &[f64], dynamic: bool, calls: Option<Vec<Call>>) -> Result<Vec<(f64, Vec<f64>)>, Outcome> {
    let probe = Rc::new(RefCell::new(Probe { budget: DERIV_BUDGET * 4, ..Default::default() }));
    let rhs = |t: f64, y: &[f64], out: &mut [f64]| cp.f(t, y, out);
    let calls = calls.unwrap_or_else(|| cfg.calls());
    let run = run_real(solver, dynamic, cp.dim, &calls, y0, probe.clone(), &rhs, MAX_POINTS, 0);
    match run.end {
        End::Done => Ok(run.pts),
        End::Failed(ErrKind::UserError(_)) if probe.borrow().budget_hit => Err(Outcome::discard("derivative budget exhausted")),
        // completion is C05's claim; here an error only makes the case inconclusive
        End::Failed(k) => Err(Outcome::discard(format!("solve reported {k:?} (completion is judged by C05)"))),
        End::Build(i, k) => Err(Outcome::fail(format!("valid configuration rejected at builder call {i}: {k:?}"))),
        End::TooManyPoints | End::Budget => Err(Outcome::discard("budget")),
        End::Panic(m) => Err(Outcome::fail(format!("panicked: {m}"))),
    }
}

fn ladder_cfg(solver: SolverKind, cp: &Compiled, t0: f64, t_len: f64, tol: f64, frac: f64) -> Cfg {
    let dt_max = frac * solver.step_cap(tol) / cp.rate;
    Cfg { solver, t0, t_end: t0 + t_len, dt_min: 1e-7 * dt_max, dt_max, tol }
}

/// worst ratio of the global error to its bound along a path
fn global_error(solver: SolverKind, cp: &Compiled, cfg: &Cfg, y0: &[f64], pts: &[(f64, Vec<f64>)]) -> Result<(f64, f64), String> {
    let mut worst_ratio: f64 = 0.0;
    let mut worst_err: f64 = 0.0;
    for (i, (t, y)) in pts.iter().enumerate() {
        let Some(exact) = cp.flow_exact(cfg.t0, y0, *t) else { return Err("no closed form".into()) };
        let err = dist2(&exact, y);
        let e = amplification(cp, t - cfg.t0);
        let floor = 256.0 * EPS * (1.0 + y.iter().map(|v| v.abs()).sum::<f64>()) * e * (i as f64 + 1.0).sqrt();
        let bound = if solver.is_bdf() { K_GLOBAL_BDF * cfg.tol * (i as f64 + 1.0) * e } else { K_GLOBAL * cfg.tol * (t - cfg.t0) * e } + floor;
        worst_err = worst_err.max(err);
        worst_ratio = worst_ratio.max(err / bound);
        if !(err <= bound) {
            return Err(format!(
                "{} with tol = {:e}: state at t = {t:e} (point #{i}) is {err:e} from the true solution; allowed {} x amplification {e:.3} = {bound:e}",
                solver.name(),
                cfg.tol,
                if solver.is_bdf() { format!("{K_GLOBAL_BDF} tol x steps") } else { format!("{K_GLOBAL} tol (t - t0)") }
            ));
        }
    }
    Ok((worst_ratio, worst_err))
}

pub fn run_case(case: &Case) -> Outcome {
    let mut o = Obs::new();
    match case {
        Case::Ladder { solver, problem, y0, t0, tlen, frac } => {
            let Some(cp) = problem.compile() else { return o.discard("degenerate problem") };
            if y0.len() != cp.dim || !cp.p.has_closed_form() {
                return o.discard("not a closed-form problem");
            }
            let solver = *solver;
            o.label("ladder");
            o.label(solver.name());
            o.label(cp.p.class());
            let finest = ladder_cfg(solver, &cp, *t0, 1.0, 1e-10, *frac);
            if ladder_cfg(solver, &cp, *t0, 1.0, 1e-3, *frac).dt_max > 1.0 {
                o.label("steps-above-one");
            }
            let t_len = tlen.min(2500.0 * finest.dt_max).max(20.0 * finest.dt_max);
            let mut errs = vec![];
            let mut worst: f64 = 0.0;
            for k in 3..=10 {
                let tol = 10f64.powi(-k);
                let cfg = ladder_cfg(solver, &cp, *t0, t_len, tol, *frac);
                let pts = match exec(solver, &cp, &cfg, y0, false, None) {
                    Ok(p) => p,
                    Err(out) => return out,
                };
                match global_error(solver, &cp, &cfg, y0, &pts) {
                    Ok((r, e)) => {
                        worst = worst.max(r);
                        errs.push(e);
                    }
                    Err(m) => return o.fail(m),
                }
            }
            o.set(&format!("ratio_global_{}", solver.name()), worst);
            o.set("errors", &errs);
            o.nontrivial = errs.last().copied().unwrap_or(1.0) < 1e-3 * errs[0];
            if o.nontrivial {
                o.label("converging");
            }
            o.pass()
        }
        Case::EulerLadder { problem, y0, t0, tlen, h0 } => {
            let Some(cp) = problem.compile() else { return o.discard("degenerate problem") };
            if y0.len() != cp.dim || !cp.p.has_closed_form() {
                return o.discard("not a closed-form problem");
            }
            o.label("euler-ladder");
            o.label(cp.p.class());
            let l = cp.lipschitz;
            let t_len = *tlen;
            // M2 = max |y''| along the exact solution, by differencing f along it on a fine grid
            let mut m2: f64 = 0.0;
            let n = 2000;
            let dtg = t_len / n as f64;
            let mut prev = cp.fv(*t0, y0);
            for i in 1..=n {
                let t = t0 + dtg * i as f64;
                let Some(y) = cp.flow_exact(*t0, y0, t) else { return o.discard("no closed form") };
                let f = cp.fv(t, &y);
                m2 = m2.max(dist2(&f, &prev) / dtg);
                prev = f;
            }
            m2 *= 1.05;
            let mut errs = vec![];
            let mut worst: f64 = 0.0;
            for j in 0..=6 {
                let h = h0 * 0.5f64.powi(j);
                let cfg = Cfg { solver: SolverKind::Euler, t0: *t0, t_end: t0 + t_len, dt_min: h, dt_max: h, tol: 1.0 };
                let pts = match exec(SolverKind::Euler, &cp, &cfg, y0, false, Some(vec![Call::MaxDt(h), Call::Start(*t0), Call::End(t0 + t_len), Call::Init, Call::Deriv])) {
                    Ok(p) => p,
                    Err(out) => return out,
                };
                let mut e: f64 = 0.0;
                for (t, y) in &pts {
                    let Some(exact) = cp.flow_exact(*t0, y0, *t) else { return o.discard("no closed form") };
                    let err = dist2(&exact, y);
                    let bound = cp.cond * (h * m2 / (2.0 * l)) * ((l * (t - t0)).exp() - 1.0) * 1.01 + 256.0 * EPS * (1.0 + norm2(y)) * pts.len() as f64;
                    worst = worst.max(err / bound);
                    if !(err <= bound) {
                        return o.fail(format!("Euler with h = {h:e}: error {err:e} at t = {t:e} exceeds the classical first-order bound (h M2 / 2L)(e^(L(t-t0)) - 1) = {bound:e} (M2 = {m2:e}, L = {l:e})"));
                    }
                    e = e.max(err);
                }
                errs.push((h, e));
            }
            o.set("ratio_euler_bound", worst);
            o.set("errors", &errs);
            // first order, two-sided: halving h halves the error once h <= 0.02 / L
            let mut ratios = vec![];
            for w in errs.windows(2) {
                if w[0].0 <= 0.02 / cp.rate && w[1].1 > 1e-11 {
                    let r = w[0].1 / w[1].1;
                    ratios.push(r);
                    if !(r >= 1.6 && r <= 2.4) {
                        return o.fail(format!("Euler is not first order: halving h from {:e} changes the worst error by a factor {r:.3} (errors {:e} -> {:e})", w[0].0, w[0].1, w[1].1));
                    }
                }
            }
            o.set("halving_ratios", &ratios);
            o.nontrivial = !ratios.is_empty();
            if o.nontrivial {
                o.label("order-observed");
            }
            o.pass()
        }
        Case::ComplexPair { solver, kind, a, w, amp, y0, second, quadrature, loose, t0, tlen, tol, frac } => {
            let solver = *solver;
            o.label("complex-pair");
            o.label(solver.name());
            let kind = *kind % 2;
            // one or two decoupled complex components (a_k, w_k, amp, y0_k)
            let mut comps: Vec<(f64, f64, f64, C64)> = vec![(*a, *w, *amp, C64::new(y0.0, y0.1))];
            if let Some((a2, w2, y2)) = second {
                if *quadrature {
                    // same dynamics, initial value rotated by 90 degrees: the two components (and their
                    // errors) are in quadrature, z2 = i z1
                    comps.push((*a, *w, *amp, C64::new(-y0.1, y0.0)));
                    o.label("complex-quadrature");
                } else {
                    comps.push((*a2, *w2, *amp, C64::new(y2.0, y2.1)));
                }
                o.label("complex-dim2");
            }
            // loose: maximum step 8x beyond the step cap, so that the error estimator (not the cap) decides
            // every step; only the complex-vs-real relation is judged then
            let loose = *loose && solver != SolverKind::Euler;
            if loose {
                o.label("complex-loose-cap");
            }
            let d = comps.len();
            let rate = comps.iter().map(|c| (c.0 * c.0 + c.1 * c.1).sqrt()).fold(0.1, f64::max);
            let adaptive = solver != SolverKind::Euler;
            let dt_max = if adaptive { frac * solver.step_cap(*tol) / rate * if loose { 8.0 } else { 1.0 } } else { 0.02 * frac / rate };
            let t_len = tlen.min(3000.0 * dt_max / if loose { 8.0 } else { 1.0 });
            let cfg = Cfg { solver, t0: *t0, t_end: t0 + t_len, dt_min: if adaptive { 1e-7 * dt_max } else { dt_max }, dt_max, tol: *tol };
            let calls = if adaptive { cfg.calls() } else { vec![Call::MaxDt(dt_max), Call::Start(cfg.t0), Call::End(cfg.t_end), Call::Init, Call::Deriv] };
            // complex run
            let probe = Rc::new(RefCell::new(Probe { budget: DERIV_BUDGET, ..Default::default() }));
            let cc = comps.clone();
            let crhs = move |t: f64, y: &[C64], out: &mut [C64]| {
                for (k, &(a, w, amp, _)) in cc.iter().enumerate() {
                    out[k] = if kind == 0 { C64::new(a, w) * y[k] } else { y[k] * (-a.abs()) + C64::new((w * t).cos(), (w * t).sin()) * amp };
                }
            };
            let cy0: Vec<C64> = comps.iter().map(|c| c.3).collect();
            let crun = run_complex(solver, d, &calls, &cy0, probe.clone(), &crhs, MAX_POINTS);
            // equivalent real system of dimension 2 d
            let probe2 = Rc::new(RefCell::new(Probe { budget: DERIV_BUDGET, ..Default::default() }));
            let rc = comps.clone();
            let rrhs = move |t: f64, y: &[f64], out: &mut [f64]| {
                for (k, &(a, w, amp, _)) in rc.iter().enumerate() {
                    if kind == 0 {
                        out[2 * k] = a * y[2 * k] - w * y[2 * k + 1];
                        out[2 * k + 1] = w * y[2 * k] + a * y[2 * k + 1];
                    } else {
                        out[2 * k] = -a.abs() * y[2 * k] + amp * (w * t).cos();
                        out[2 * k + 1] = -a.abs() * y[2 * k + 1] + amp * (w * t).sin();
                    }
                }
            };
            let ry0: Vec<f64> = comps.iter().flat_map(|c| [c.3.re, c.3.im]).collect();
            let rrun = run_real(solver, false, 2 * d, &calls, &ry0, probe2.clone(), &rrhs, MAX_POINTS, 0);
            // One formulation exhausting the derivative budget while the equivalent one finishes with less than a
            // tenth of it is a disagreement of the pair (a solve that spins), not a case to set aside.
            let (bh_c, bh_r) = (probe.borrow().budget_hit, probe2.borrow().budget_hit);
            if bh_c != bh_r {
                let (done, calls_done, stuck) = if bh_c { (&rrun.end, probe2.borrow().calls, "complex") } else { (&crun.end, probe.borrow().calls, "equivalent real") };
                if matches!(done, End::Done) && calls_done * 10 <= DERIV_BUDGET {
                    return o.fail(format!(
                        "{} with {}: the {stuck} formulation used up the budget of {DERIV_BUDGET} derivative evaluations while the other finished with {calls_done}",
                        solver.name(),
                        if bh_c { "complex state" } else { "real state" }
                    ));
                }
            }
            if bh_c || bh_r {
                return o.discard("derivative budget exhausted");
            }
            let (cp_, rp_) = match (&crun.end, &rrun.end) {
                (End::Done, End::Done) => (&crun.pts, &rrun.pts),
                (End::Panic(m), _) | (_, End::Panic(m)) => return o.fail(format!("panicked: {m}")),
                (End::Build(i, k), _) => return o.fail(format!("complex builder rejected valid configuration at call {i}: {k:?}")),
                (c, r) => {
                    // both must fare alike
                    let same = std::mem::discriminant(c) == std::mem::discriminant(r);
                    return if same { o.discard("both runs ended with an error (completion is judged by C05)") } else { o.fail(format!("complex run ended with {c:?} but the equivalent real run with {r:?}")) };
                }
            };
            // exact solution per component
            let exact = |k: usize, t: f64| -> C64 {
                let (a, w, amp, z0) = comps[k];
                let dt = t - t0;
                if kind == 0 {
                    z0 * C64::new(a * dt, w * dt).exp()
                } else {
                    // y' = -l y + amp e^{iwt}: yp = amp e^{iwt}/(l + i w)
                    let l = a.abs();
                    let yp = |t: f64| C64::new((w * t).cos(), (w * t).sin()) * amp / C64::new(l, w);
                    (z0 - yp(*t0)) * (-l * dt).exp() + yp(t)
                }
            };
            let growth = if kind == 0 { comps.iter().map(|c| c.0).fold(0.0, f64::max) } else { 0.0 };
            let y0n = comps.iter().map(|c| c.3.norm()).sum::<f64>();
            let ampn = comps.iter().map(|c| c.2.abs()).fold(0.0, f64::max);
            let mut worst: f64 = 0.0;
            let mut worst_err = [0.0f64; 2];
            let as_complex = |pts: &Vec<(f64, Vec<f64>)>| -> Vec<(f64, Vec<C64>)> { pts.iter().map(|(t, y)| (*t, (0..d).map(|k| C64::new(y[2 * k], y[2 * k + 1])).collect())).collect() };
            for (wi, (which, pts)) in [("complex", cp_.clone()), ("real", as_complex(rp_))].into_iter().enumerate() {
                for (i, (t, y)) in pts.iter().enumerate() {
                    let err = (0..d).map(|k| (y[k] - exact(k, *t)).norm_sqr()).sum::<f64>().sqrt();
                    worst_err[wi] = worst_err[wi].max(err);
                    if loose {
                        continue;
                    }
                    let yn = y.iter().map(|z| z.norm()).sum::<f64>();
                    let e = (growth * (t - t0)).exp();
                    let floor = 256.0 * EPS * (1.0 + yn) * e * (i as f64 + 1.0).sqrt();
                    let bound = if !adaptive {
                        // first-order bound with M2 >= max |y''|
                        let l = rate;
                        let m2 = 2.0 * (rate * rate * (y0n + 4.0 * ampn * d as f64 + ampn / rate) + 2.0 * rate * ampn * d as f64) * e.max(1.0);
                        (dt_max * m2 / (2.0 * l)) * ((l * (t - t0)).exp() - 1.0) * 1.05 + floor
                    } else if solver.is_bdf() {
                        K_GLOBAL_BDF * tol * (i as f64 + 1.0) * e + floor
                    } else {
                        K_GLOBAL * tol * (t - t0) * e + floor
                    };
                    worst = worst.max(err / bound);
                    if !(err <= bound) {
                        return o.fail(format!("{which} formulation with {}: error {err:e} at t = {t:e} exceeds {bound:e}", solver.name()));
                    }
                }
            }
            o.set("ratio_pair_accuracy", worst);
            // metamorphic relation proper: the complex formulation is as accurate as the real one
            {
                let e = (growth * t_len).exp();
                let slack = 20.0 * tol * t_len.max(1.0) * e * if solver.is_bdf() { cp_.len() as f64 } else { 1.0 } + 1e-12;
                let rel = worst_err[0] / (20.0 * worst_err[1] + slack);
                o.set("ratio_pair_relative", rel);
                if !(worst_err[0] <= 20.0 * worst_err[1] + slack) {
                    return o.fail(format!("{}: the complex formulation's worst error {:e} is more than 20x that of the equivalent real system ({:e}); tol = {tol:e}", solver.name(), worst_err[0], worst_err[1]));
                }
            }
            // same discretisation: compare point by point when the step sequences coincide
            let same_times = cp_.len() == rp_.len() && cp_.iter().zip(rp_.iter()).all(|(c, r)| c.0 == r.0);
            if same_times {
                o.label("identical-step-sequence");
                let mut wd: f64 = 0.0;
                for (c, r) in cp_.iter().zip(as_complex(rp_).iter()) {
                    let dd = (0..d).map(|k| (c.1[k] - r.1[k]).norm_sqr()).sum::<f64>().sqrt();
                    let cn = c.1.iter().map(|z| z.norm()).sum::<f64>();
                    let allow = 64.0 * EPS * (1.0 + cn) * (cp_.len() as f64).sqrt() * if solver.is_bdf() { 64.0 + tol / EPS } else { 1.0 };
                    wd = wd.max(dd / allow);
                    if !(dd <= allow) {
                        return o.fail(format!("complex and real formulations took the same steps but differ by {dd:e} at t = {:e} (allowed {allow:e})", c.0));
                    }
                }
                o.set("ratio_pair_match", wd);
            } else {
                o.label("different-step-sequence");
                // "solved as accurately as the equivalent real system": the two runs must do comparable work
                let (nc, nr) = (cp_.len() as f64, rp_.len() as f64);
                if adaptive && (nc < 0.5 * nr - 8.0 || nc > 2.0 * nr + 8.0) {
                    return o.fail(format!("complex formulation took {nc} steps, the equivalent real system {nr}: the error control differs"));
                }
            }
            o.nontrivial = cp_.len() >= 20;
            o.pass()
        }
        Case::DynPair { solver, problem, y0, t0, tlen, tol, frac } => {
            let Some(cp) = problem.compile() else { return o.discard("degenerate problem") };
            if y0.len() != cp.dim {
                return o.discard("dimension mismatch");
            }
            let solver = *solver;
            o.label("dyn-pair");
            o.label(solver.name());
            let adaptive = solver != SolverKind::Euler;
            let dt_max = if adaptive { frac * solver.step_cap(*tol) / cp.rate } else { 0.02 * frac / cp.rate };
            let t_len = tlen.min(2000.0 * dt_max);
            let cfg = Cfg { solver, t0: *t0, t_end: t0 + t_len, dt_min: if adaptive { 1e-7 * dt_max } else { dt_max }, dt_max, tol: *tol };
            let calls = if adaptive { cfg.calls() } else { vec![Call::MaxDt(dt_max), Call::Start(cfg.t0), Call::End(cfg.t_end), Call::Init, Call::Deriv] };
            let s = match exec(solver, &cp, &cfg, y0, false, Some(calls.clone())) {
                Ok(p) => p,
                Err(out) => return out,
            };
            let d = match exec(solver, &cp, &cfg, y0, true, Some(calls)) {
                Ok(p) => p,
                Err(out) => {
                    return if out.is_fail() { out } else { o.fail("the statically sized solve completed but the dynamically sized one did not") };
                }
            };
            // nalgebra sums static and dynamic vectors in a different order. The embedded error estimates
            // are differences of O(h f) terms, so they carry a relative rounding noise of about eps |f| / tol,
            // which the step controller turns into slightly different step sizes. "The same solution up to
            // rounding" is therefore judged after transporting each static point to the time of the dynamic
            // one with the reference flow.
            if (s.len() as i64 - d.len() as i64).abs() > 1 {
                return o.fail(format!("static dimension yields {} points, dynamic dimension {}", s.len(), d.len()));
            }
            let nsteps = s.len().max(d.len()) as f64;
            let common = s.len().min(d.len()).saturating_sub(if s.len() == d.len() { 0 } else { 1 });
            let mut wd: f64 = 0.0;
            let mut wt: f64 = 0.0;
            for (a, b) in s.iter().zip(d.iter()).take(common) {
                let allow_t = 1e-4 * dt_max + 64.0 * EPS * (1.0 + a.0.abs()) * nsteps;
                wt = wt.max((a.0 - b.0).abs() / allow_t);
                if !((a.0 - b.0).abs() <= allow_t) {
                    return o.fail(format!("static and dynamic solves yield different times: {:e} vs {:e}", a.0, b.0));
                }
                let moved = if a.0 == b.0 { Some(a.1.clone()) } else { cp.flow(a.0, &a.1, b.0) };
                let Some(moved) = moved else { return o.discard("reference flow did not converge") };
                let dd = dist2(&moved, &b.1);
                let allow = 64.0 * EPS * (1.0 + norm2(&a.1)) * nsteps * (1.0 + cp.rate) + 1e-3 * tol;
                wd = wd.max(dd / allow);
                if !(dd <= allow) {
                    return o.fail(format!("static and dynamic solves differ by {dd:e} at t = {:e} (allowed {allow:e})", b.0));
                }
            }
            o.set("ratio_dyn_match", wd);
            o.set("ratio_dyn_times", wt);
            o.nontrivial = s.len() >= 20;
            o.pass()
        }
    }
}

fn strategy(_t: Tier) -> BoxedStrategy<Case> {
    let t0 = || prop_oneof![1 => Just(0.0), 3 => gen::fl(-2.0, 2.0)];
    let ladder = (proptest::sample::select(&ADAPTIVE[..]), problem_closed(), t0(), gen::fl(0.5, 3.0), gen::fl(0.3, 1.0)).prop_map(|(solver, (problem, y0), t0, tlen, frac)| Case::Ladder { solver, problem, y0, t0, tlen, frac });
    // one ladder in five on a slow time axis: the problem stretched by 10^[1,3.5] (all rates divided by it), start and
    // length stretched with it - maximal steps far above 1
    let ladder = (ladder, prop_oneof![4 => Just(0.0), 1 => gen::fl(1.0, 3.5)]).prop_map(|(case, e)| match case {
        Case::Ladder { solver, problem, y0, t0, tlen, frac } if e > 0.0 => {
            let s = 10f64.powf(e);
            Case::Ladder { solver, problem: scale_time(problem, s), y0, t0: t0 * s, tlen: tlen * s, frac }
        }
        other => other,
    });
    let euler = (problem_closed(), t0(), gen::fl(0.5, 2.0), gen::logu(-2.0, -1.0)).prop_map(|((problem, y0), t0, tlen, h0)| Case::EulerLadder { problem, y0, t0, tlen, h0 });
    let second = prop_oneof![1 => Just(None), 2 => (gen::fl(-1.0, 0.5), gen::fl(0.5, 3.0), (gen::fl(-2.0, 2.0), gen::fl(-2.0, 2.0))).prop_map(Some)];
    let cpair = ((proptest::sample::select(&ALL_SOLVERS[..]), 0u8..2, gen::fl(-1.0, 0.5), gen::fl(0.5, 3.0), gen::fl(-2.0, 2.0), (gen::fl(-2.0, 2.0), gen::fl(-2.0, 2.0))), (second, prop_oneof![2 => Just(false), 1 => Just(true)], any::<bool>()), (t0(), gen::fl(0.5, 4.0), gen::logu(-9.0, -3.0), gen::fl(0.3, 1.0)))
        .prop_map(|((solver, kind, a, w, amp, y0), (second, quadrature, loose), (t0, tlen, tol, frac))| Case::ComplexPair { solver, kind, a, w, amp, y0, second, quadrature, loose, t0, tlen, tol, frac });
    let dpair = (proptest::sample::select(&ALL_SOLVERS[..]), problem_any(), t0(), gen::fl(0.5, 4.0), gen::logu(-9.0, -3.0), gen::fl(0.3, 1.0)).prop_map(|(solver, (problem, y0), t0, tlen, tol, frac)| Case::DynPair { solver, problem, y0, t0, tlen, tol, frac });
    prop_oneof![2 => ladder, 1 => euler, 3 => cpair, 3 => dpair].boxed()
}

pub fn run(opts: &Opts) -> i32 {
    let mut spec = Spec::new("C04", strategy, run_case);
    for solver in ADAPTIVE {
        spec.enumerated.push(Case::Ladder { solver, problem: Problem::Lin { blocks: vec![(-0.3, 2.0), (0.4, 0.0)], mix: vec![0.4; 16], center: vec![0.5, -0.5, 1.0] }, y0: vec![1.0, 0.0, 2.0], t0: 0.0, tlen: 2.0, frac: 0.7 });
    }
    spec.enumerated.push(Case::EulerLadder { problem: Problem::Lin { blocks: vec![(-0.5, 1.5)], mix: vec![0.2; 16], center: vec![0.0, 0.0] }, y0: vec![1.0, 0.0], t0: 0.0, tlen: 1.0, h0: 0.05 });
    spec.cases = opts.tier.pick(3_000, 60_000);
    spec.essential = vec![("ladder", 0.1), ("converging", 0.08), ("euler-ladder", 0.05), ("order-observed", 0.04), ("complex-pair", 0.2), ("complex-dim2", 0.1), ("complex-quadrature", 0.03), ("complex-loose-cap", 0.08), ("dyn-pair", 0.2), ("identical-step-sequence", 0.1)];
    spec.max_discard_frac = 0.15;
    spec.rule = format!("generated: (1) tolerance ladders 1e-3..1e-10 for the six adaptive solvers on closed-form problems (linear constant-coefficient, forced linear, separable; dimension 1-4) with dt_max = U(0.3,1) cap(tol)/L, one ladder in five on a time axis stretched by 10^[1,3.5] (maximal steps far above 1); every yielded state within {K_GLOBAL} tol (t - t0) E (RK/Adams) or {K_GLOBAL_BDF} tol i E (BDF) of the closed-form solution, E = cond(M) max(1, e^(mu (t-t0))); (2) Euler step ladders h0 2^-j: classical first-order bound and error ratio in [1.6,2.4] per halving once h <= 0.02/L; (3) complex problems of dimension 1 and 2 (decoupled components y' = (a+iw)y or y' = -l y + A e^(iwt) with independent phases) against the equivalent real system of twice the dimension, also with components in quadrature (z2 = i z1) and with the maximum step 8x beyond the cap (estimator-limited): the complex formulation's worst error must be within 20x that of the real one: both within the accuracy bound, and equal point by point when the step sequences coincide; (4) the same problem through new() and new_dyn(dim): point counts within one, times within 1e-4 dt_max, states equal after transporting the static point to the dynamic time with the reference flow (64 eps x steps + 1e-3 tol). Non-trivial = ladder whose finest error is < 1e-3 of its coarsest; Euler ladder with at least one judged halving; pairs with >= 20 points. Distinct = distinct case JSON.");
    spec.max_shrink_iters = 100;
    run_spec(spec, opts)
}

mod c15;
mod c16;

fn main() {
    let opts = bverif::engine::parse_args();
    let code = match opts.prop.as_str() {
        "C15" => c15::run(&opts),
        "C16" => c16::run(&opts),
        p => {
            eprintln!("interp: unknown property {p}");
            2
        }
    };
    std::process::exit(code);
}

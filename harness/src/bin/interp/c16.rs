//! C16 — cubic splines interpolate, are C2, and honour their end conditions; compared with an
//! independent dense solve of the spline equations.

use bacon_sci::interp::{spline_clamped, spline_free, CubicSpline};
use bverif::engine::*;
use bverif::refs::num::*;
use nalgebra::{DMatrix, DVector};
use proptest::prelude::*;
use serde::{Deserialize, Serialize};

#[derive(Clone, Debug, Serialize, Deserialize)]
pub struct Case {
    pub complex: bool,
    pub clamped: bool,
    pub x0: f64,
    /// knot spacings
    pub hs: Vec<f64>,
    /// ordinates (re, im); or, when `sampled`, the first four are cubic (clamped) / first two are line (free) coefficients
    pub ys: Vec<(f64, f64)>,
    pub slopes: ((f64, f64), (f64, f64)),
    pub sampled: bool,
    pub tol: f64,
    /// ordinates and end slopes are multiplied by 10^yscale_exp
    #[serde(default)]
    pub yscale_exp: f64,
    /// sampled class: coefficient k of the sampled cubic/line is multiplied by 10^coef_exp[k] (gently curved data:
    /// the generator keeps the exponents non-increasing in k, so that the ordinates stay of one magnitude)
    #[serde(default)]
    pub coef_exp: [f64; 4],
    /// 0 valid; 1 fewer than two points; 2 mismatched lengths (ordinates one short; 5, 6, 7: one / three more ordinates, one knot fewer); 3 a decreasing knot pair; 4 evaluate outside
    pub invalid: u8,
}

enum Sp {
    R(CubicSpline<f64>),
    C(CubicSpline<C64>),
}

impl Sp {
    /// (evaluate(x).is_ok(), evaluate_derivative(x).is_ok()) - the two entry points are probed separately
    fn accepts(&self, x: f64) -> (bool, bool) {
        match self {
            Sp::R(s) => (s.evaluate(x).is_ok(), s.evaluate_derivative(x).is_ok()),
            Sp::C(s) => (s.evaluate(x).is_ok(), s.evaluate_derivative(x).is_ok()),
        }
    }
    fn eval(&self, x: f64) -> Result<(C64, C64), String> {
        match self {
            Sp::R(s) => {
                let v = s.evaluate(x)?;
                let (v2, d) = s.evaluate_derivative(x)?;
                if v != v2 && !(v.is_nan() && v2.is_nan()) {
                    return Err(format!("evaluate and evaluate_derivative disagree on the value at {x}"));
                }
                Ok((c(v, 0.0), c(d, 0.0)))
            }
            Sp::C(s) => {
                let v = s.evaluate(x)?;
                let (v2, d) = s.evaluate_derivative(x)?;
                if v != v2 {
                    return Err(format!("evaluate and evaluate_derivative disagree on the value at {x}"));
                }
                Ok((v, d))
            }
        }
    }
}

fn build(case: &Case, xs: &[f64], ys: &[C64], s0: C64, s1: C64) -> Result<Result<Sp, String>, Caught> {
    guard(|| {
        if case.complex {
            if case.clamped { spline_clamped::<C64>(xs, ys, (s0, s1), case.tol) } else { spline_free::<C64>(xs, ys, case.tol) }.map(Sp::C)
        } else {
            let yr: Vec<f64> = ys.iter().map(|z| z.re).collect();
            if case.clamped { spline_clamped::<f64>(xs, &yr, (s0.re, s1.re), case.tol) } else { spline_free::<f64>(xs, &yr, case.tol) }.map(Sp::R)
        }
    })
}

/// reference spline: second derivatives M_i from a dense LU solve
fn reference(xs: &[f64], ys: &[C64], clamped: Option<(C64, C64)>) -> Option<Vec<C64>> {
    let n = xs.len();
    let h: Vec<f64> = (0..n - 1).map(|i| xs[i + 1] - xs[i]).collect();
    let mut a = DMatrix::<C64>::zeros(n, n);
    let mut b = DVector::<C64>::zeros(n);
    let slope = |i: usize| (ys[i + 1] - ys[i]) / h[i];
    for i in 1..n - 1 {
        a[(i, i - 1)] = c(h[i - 1], 0.0);
        a[(i, i)] = c(2.0 * (h[i - 1] + h[i]), 0.0);
        a[(i, i + 1)] = c(h[i], 0.0);
        b[i] = (slope(i) - slope(i - 1)) * 6.0;
    }
    match clamped {
        None => {
            a[(0, 0)] = c(1.0, 0.0);
            a[(n - 1, n - 1)] = c(1.0, 0.0);
        }
        Some((s0, s1)) => {
            a[(0, 0)] = c(2.0 * h[0], 0.0);
            a[(0, 1)] = c(h[0], 0.0);
            b[0] = (slope(0) - s0) * 6.0;
            a[(n - 1, n - 2)] = c(h[n - 2], 0.0);
            a[(n - 1, n - 1)] = c(2.0 * h[n - 2], 0.0);
            b[n - 1] = (s1 - slope(n - 2)) * 6.0;
        }
    }
    a.lu().solve(&b).map(|v| v.iter().cloned().collect())
}

/// value, derivative of the reference spline on interval i, and the local monomial coefficients (in t = x - x_i)
fn ref_eval(xs: &[f64], ys: &[C64], m: &[C64], i: usize, x: f64) -> (C64, C64, [f64; 4]) {
    let h = xs[i + 1] - xs[i];
    let (a, b) = (xs[i + 1] - x, x - xs[i]);
    let v = m[i] * (a * a * a / (6.0 * h)) + m[i + 1] * (b * b * b / (6.0 * h)) + (ys[i] / h - m[i] * (h / 6.0)) * a + (ys[i + 1] / h - m[i + 1] * (h / 6.0)) * b;
    let d = -m[i] * (a * a / (2.0 * h)) + m[i + 1] * (b * b / (2.0 * h)) - (ys[i] / h - m[i] * (h / 6.0)) + (ys[i + 1] / h - m[i + 1] * (h / 6.0));
    // local coefficients: y_i + b1 t + (M_i/2) t^2 + ((M_{i+1}-M_i)/(6h)) t^3
    let b1 = (ys[i + 1] - ys[i]) / h - (m[i] * 2.0 + m[i + 1]) * (h / 6.0);
    (v, d, [ys[i].norm(), b1.norm(), (m[i] * 0.5).norm(), ((m[i + 1] - m[i]) / (6.0 * h)).norm()])
}

/// K(x): magnitude of the terms of the cubic expanded in powers of x
fn kscale(local: &[f64; 4], x: f64, xi: f64) -> f64 {
    let r = x.abs() + xi.abs();
    local[0] + local[1] * r + local[2] * r * r + local[3] * r * r * r
}

const KV: f64 = 64.0;

pub fn run_case(case: &Case) -> Outcome {
    let mut o = Obs::new();
    let ysc = 10f64.powf(case.yscale_exp);
    let z = |p: &(f64, f64)| if case.complex { c(p.0 * ysc, p.1 * ysc) } else { c(p.0 * ysc, 0.0) };
    let sampled_cf = |n: usize| -> Vec<C64> { case.ys.iter().take(n).enumerate().map(|(k, p)| z(p) * 10f64.powf(case.coef_exp[k])).collect() };
    if case.yscale_exp != 0.0 {
        o.label("y-scaled");
    }
    if case.tol > 1e-9 {
        o.label("loose-polynomial-tolerance");
    }
    if case.hs.iter().any(|h| *h <= case.tol) {
        o.label("tolerance-above-knot-spacing");
    }
    let nk = case.hs.len() + 1;
    let mut xs = vec![case.x0];
    for h in &case.hs {
        let last = *xs.last().unwrap();
        xs.push(last + h);
    }
    o.label(if case.clamped { "clamped" } else { "free" });
    o.label(if case.complex { "complex" } else { "real" });
    // data
    let ys: Vec<C64> = if case.sampled {
        let cf = sampled_cf(if case.clamped { 4 } else { 2 });
        xs.iter().map(|&x| horner_c(&cf, c(x, 0.0))).collect()
    } else {
        case.ys.iter().take(nk).map(z).collect()
    };
    if ys.len() != nk {
        return o.discard("not enough ordinates");
    }
    let (s0, s1) = if case.sampled && case.clamped {
        let cf = sampled_cf(4);
        let d = deriv_coeffs_c(&cf, 1);
        (horner_c(&d, c(xs[0], 0.0)), horner_c(&d, c(xs[nk - 1], 0.0)))
    } else {
        (z(&case.slopes.0), z(&case.slopes.1))
    };
    // ---- invalid classes
    if case.invalid != 0 && case.invalid != 4 {
        o.label("invalid");
        o.nontrivial = true;
        let (xs2, ys2): (Vec<f64>, Vec<C64>) = match case.invalid {
            1 => (xs[..1].to_vec(), ys[..1].to_vec()),
            // no points at all
            8 => (vec![], vec![]),
            2 => (xs.clone(), ys[..nk - 1].to_vec()),
            // more ordinates than knots (one more / three more), fewer knots than ordinates
            5 => (xs.clone(), ys.iter().cloned().chain(std::iter::once(ys[0])).collect()),
            6 => (xs.clone(), ys.iter().cloned().chain(ys.iter().cloned().take(3)).collect()),
            7 if nk >= 3 => (xs[..nk - 1].to_vec(), ys.clone()),
            7 => (xs.clone(), ys.iter().cloned().chain(std::iter::once(ys[0])).collect()),
            _ => {
                if nk < 3 {
                    // two knots in decreasing order
                    (vec![xs[1], xs[0]], ys[..2].to_vec())
                } else {
                    let mut x2 = xs.clone();
                    x2.swap(nk / 2, nk / 2 - 1);
                    (x2, ys.clone())
                }
            }
        };
        return match build(case, &xs2, &ys2, s0, s1) {
            Ok(Err(_)) => o.pass(),
            Ok(Ok(_)) => o.fail(format!("invalid input (class {}) built a spline instead of returning Err", case.invalid)),
            Err(Caught::Panic(m)) => o.fail(format!("invalid input (class {}) panicked: {m}", case.invalid)),
            Err(Caught::Budget(_)) => o.fail("budget"),
        };
    }
    let sp = match build(case, &xs, &ys, s0, s1) {
        Ok(Ok(s)) => s,
        Ok(Err(e)) => return o.fail(format!("valid knots returned Err({e})")),
        Err(Caught::Panic(m)) => return o.fail(format!("panicked: {m}")),
        Err(Caught::Budget(_)) => return o.fail("budget"),
    };
    // outside the knot range
    {
        let w = xs[nk - 1] - xs[0];
        for x in [xs[0] - 0.01 * w - 1e-9, xs[nk - 1] + 0.01 * w + 1e-9, next_down(xs[0]), next_up(xs[nk - 1])] {
            let (v_ok, d_ok) = sp.accepts(x);
            if v_ok || d_ok {
                return o.fail(format!("{} at {x:e} outside the knot range [{:e}, {:e}] returned Ok", if v_ok { "evaluate" } else { "evaluate_derivative" }, xs[0], xs[nk - 1]));
            }
        }
    }
    if case.invalid == 4 {
        o.label("outside");
    }
    let Some(m) = reference(&xs, &ys, if case.clamped { Some((s0, s1)) } else { None }) else { return o.discard("reference solve failed") };
    let hmin = case.hs.iter().cloned().fold(f64::INFINITY, f64::min);
    let hmax = case.hs.iter().cloned().fold(0.0, f64::max);
    o.set("knots", nk);
    o.nontrivial = nk >= 4 && hmax / hmin > 1.05;
    if case.sampled {
        o.label("sampled");
    }
    // Rounding of the second derivatives themselves: both solves see the data only through the divided
    // differences, whose rounding is ~ eps |y| / h^2 at each knot, and the inverse of the diagonally dominant
    // tridiagonal matrix spreads it with a decay of at least 1/2 per knot. g[i] bounds that (per unit eps)
    // for interval i; it enters the value scale as g h^2, which matters where the local cubic is small
    // (near x = 0, at a zero ordinate) while its neighbours are not.
    let knot_scale: Vec<f64> = (0..nk)
        .map(|j| {
            let hm = if j == 0 { case.hs[0] } else if j == nk - 1 { case.hs[nk - 2] } else { case.hs[j - 1].min(case.hs[j]) };
            let yl = if j > 0 { ys[j - 1].norm() } else { 0.0 };
            let yr = if j + 1 < nk { ys[j + 1].norm() } else { 0.0 };
            let end = if case.clamped && j == 0 { s0.norm() / hm } else if case.clamped && j == nk - 1 { s1.norm() / hm } else { 0.0 };
            (yl + 2.0 * ys[j].norm() + yr) / (hm * hm) + end + m[j].norm()
        })
        .collect();
    let g: Vec<f64> = (0..nk - 1)
        .map(|i| {
            (0..nk)
                .map(|j| {
                    let dist = if j <= i { i - j } else { j - i - 1 };
                    knot_scale[j] * 0.5f64.powi(dist.min(1000) as i32)
                })
                .fold(0.0, f64::max)
        })
        .collect();
    let mut worst_v: f64 = 0.0;
    let mut worst_d: f64 = 0.0;
    let mut worst_c: f64 = 0.0;
    // second derivative at both ends of every interval, recovered from values and slopes
    let mut second: Vec<(C64, C64, f64)> = vec![];
    for i in 0..nk - 1 {
        let h = xs[i + 1] - xs[i];
        let left = if i == 0 { xs[0] } else { next_up(xs[i]) };
        let right = xs[i + 1];
        let mut pts = vec![left, right];
        for k in 1..=8 {
            pts.push(xs[i] + h * k as f64 / 9.0);
        }
        let mut ends = [(c(0.0, 0.0), c(0.0, 0.0)); 2];
        let mut kmax: f64 = 0.0;
        for (pi, &x) in pts.iter().enumerate() {
            let (v, d) = match sp.eval(x) {
                Ok(t) => t,
                Err(e) => return o.fail(format!("evaluation inside the knot range at {x:e} failed: {e}")),
            };
            let (rv, rd, local) = ref_eval(&xs, &ys, &m, i, x);
            let k = kscale(&local, x, xs[i]) + g[i] * h * h;
            kmax = kmax.max(k);
            // no allowance for the polynomial tolerance argument: the property does not let it move the spline
            let bv = KV * EPS * k;
            let bd = KV * EPS * k / h.min(1.0) * 4.0;
            if !(v.re.is_finite() && v.im.is_finite() && d.re.is_finite() && d.im.is_finite()) {
                return o.fail("non-finite spline value");
            }
            worst_v = worst_v.max((v - rv).norm() / bv);
            worst_d = worst_d.max((d - rd).norm() / bd);
            if !((v - rv).norm() <= bv) {
                return o.fail(format!("interval {i}, x = {x:e}: spline value {v:e} differs from the independently solved spline {rv:e} (|diff| {:e} > {bv:e})", (v - rv).norm()));
            }
            if !((d - rd).norm() <= bd) {
                return o.fail(format!("interval {i}, x = {x:e}: spline slope {d:e} differs from the independently solved spline {rd:e} (|diff| {:e} > {bd:e})", (d - rd).norm()));
            }
            if pi < 2 {
                ends[pi] = (v, d);
            }
        }
        // direct: interpolation at both knots of the interval
        for (e, yk) in [(ends[0].0, ys[i]), (ends[1].0, ys[i + 1])] {
            let b = KV * EPS * kmax;
            worst_c = worst_c.max((e - yk).norm() / b);
            if !((e - yk).norm() <= b) {
                return o.fail(format!("spline does not pass through the data at interval {i}: {e:e} vs {yk:e}"));
            }
        }
        let (p0, d0) = ends[0];
        let (p1, d1) = ends[1];
        let s = (p1 - p0) / h;
        let sl = (s * 3.0 - d0 * 2.0 - d1) * (2.0 / h);
        let sr = (-s * 3.0 + d0 + d1 * 2.0) * (2.0 / h);
        second.push((sl, sr, KV * EPS * kmax * 4.0 / (h * h).min(1.0)));
    }
    // C2 across interior knots, end conditions
    for i in 0..nk - 2 {
        let (a, b) = (second[i].1, second[i + 1].0);
        let allow = second[i].2 + second[i + 1].2;
        worst_c = worst_c.max((a - b).norm() / allow);
        if !((a - b).norm() <= allow) {
            return o.fail(format!("second derivative jumps at knot {}: {a:e} vs {b:e} (allowed {allow:e})", i + 1));
        }
    }
    if !case.clamped {
        for (v, a) in [(second[0].0, second[0].2), (second[nk - 2].1, second[nk - 2].2)] {
            worst_c = worst_c.max(v.norm() / a);
            if !(v.norm() <= a) {
                return o.fail(format!("free spline: second derivative at an end is {v:e}, not 0 (allowed {a:e})"));
            }
        }
    } else {
        let (_, dl) = sp.eval(xs[0]).unwrap();
        let (_, dr) = sp.eval(xs[nk - 1]).unwrap();
        for (d, s, a) in [(dl, s0, second[0].2), (dr, s1, second[nk - 2].2)] {
            worst_c = worst_c.max((d - s).norm() / a);
            if !((d - s).norm() <= a) {
                return o.fail(format!("clamped spline: end slope {d:e}, prescribed {s:e}"));
            }
        }
    }
    o.set("ratio_value", worst_v);
    o.set("ratio_slope", worst_d);
    o.set("ratio_conditions", worst_c);
    // reproduction: a clamped spline reproduces a cubic, a free spline a straight line - implied by the
    // comparison with the reference (whose M_i are then those of the cubic/line); checked directly as well
    if case.sampled {
        let cf = sampled_cf(if case.clamped { 4 } else { 2 });
        let dcf = deriv_coeffs_c(&cf, 1);
        for i in 0..nk - 1 {
            let x = xs[i] + 0.37 * (xs[i + 1] - xs[i]);
            let (v, d) = sp.eval(x).unwrap();
            let k = abs_scale_c(&cf, x.abs() + xs[i].abs());
            let bv = 64.0 * KV * EPS * k * (nk as f64);
            if !((v - horner_c(&cf, c(x, 0.0))).norm() <= bv) {
                return o.fail(format!("spline through samples of a {} does not reproduce it at {x:e}: {v:e} vs {:e}", if case.clamped { "cubic" } else { "line" }, horner_c(&cf, c(x, 0.0))));
            }
            if !((d - horner_c(&dcf, c(x, 0.0))).norm() <= bv * 64.0 / hmin.min(1.0)) {
                return o.fail("spline does not reproduce the derivative of the sampled polynomial");
            }
        }
    }
    o.pass()
}

/// exactly collinear ordinates on an evenly spaced dyadic grid (all second differences vanish bit for bit) with end
/// slopes that agree with the line at neither, one or both ends - for the clamped spline the end slopes alone then
/// decide the shape
fn collinear_case() -> BoxedStrategy<Case> {
    (
        (any::<bool>(), any::<bool>(), -24i32..=8, prop_oneof![Just(1.0), Just(0.5), Just(0.125)], 2usize..=12),
        ((-12i32..=12, -12i32..=12), (-12i32..=12, -12i32..=12), 0u8..4, (gen::fl(-3.0, 3.0), gen::fl(-3.0, 3.0)), (gen::fl(-3.0, 3.0), gen::fl(-3.0, 3.0))),
    )
        .prop_map(|((complex, clamped, k0, h, n), ((ar, br), (ai, bi), mode, s0, s1))| {
            let q = |k: i32| k as f64 * 0.25;
            let x0 = q(k0);
            let ys: Vec<(f64, f64)> = (0..=n).map(|k| (q(ar) * (x0 + h * k as f64) + q(br), q(ai) * (x0 + h * k as f64) + q(bi))).collect();
            let line = (q(ar), q(ai));
            let slopes = match mode {
                0 => (line, line),
                1 => (s0, line),
                2 => (line, s1),
                _ => (s0, s1),
            };
            Case { complex, clamped, x0, hs: vec![h; n], ys, slopes, sampled: false, tol: 1e-10, yscale_exp: 0.0, coef_exp: [0.0; 4], invalid: 0 }
        })
        .boxed()
}

fn cexp() -> BoxedStrategy<f64> {
    prop_oneof![2 => Just(0.0), 1 => gen::fl(-8.0, 0.0)].boxed()
}

fn strategy(t: Tier) -> BoxedStrategy<Case> {
    let maxk = t.pick(40usize, 40);
    let val = || (gen::fl(-3.0, 3.0), gen::fl(-3.0, 3.0));
    let main = (
        any::<bool>(),
        any::<bool>(),
        gen::fl(-10.0, 5.0),
        // spacings 10^[-1.7, 0] (ratio <= 50)
        prop_oneof![
            7 => (1usize..maxk).prop_flat_map(|n| proptest::collection::vec(prop_oneof![3 => gen::logu(-1.7, 0.0), 1 => Just(0.25)], n)),
            // evenly spaced grids (h = 1, dyadic or arbitrary)
            1 => (1usize..maxk, prop_oneof![Just(1.0), Just(0.5), Just(0.125), gen::logu(-1.7, 0.0)]).prop_map(|(n, h)| vec![h; n]),
        ],
        proptest::collection::vec(val(), maxk),
        (val(), val()),
        prop_oneof![3 => Just(false), 1 => Just(true)],
        (prop_oneof![2 => gen::logu(-14.0, -10.0), 2 => gen::logu(-10.0, -4.0), 1 => gen::logu(-4.0, 0.0)], prop_oneof![3 => Just(0.0), 2 => gen::fl(-9.0, 3.0), 1 => gen::fl(-40.0, -9.0)], [cexp(), cexp(), cexp(), cexp()]),
        prop_oneof![20 => Just(0u8), 2 => 1u8..=4, 1 => 5u8..=8],
    )
        .prop_map(|(complex, clamped, x0, mut hs, ys, slopes, sampled, (tol, yscale_exp, ce), invalid)| {
            let coef_exp = [0.0, 0.0, ce[2], ce[2] + ce[3]];
            // keep the knots inside [-10, 10]
            let total: f64 = hs.iter().sum();
            if x0 + total > 10.0 {
                let f = (10.0 - x0) / total;
                for h in hs.iter_mut() {
                    *h *= f;
                }
            }
            Case { complex, clamped, x0, hs, ys, slopes, sampled, tol, yscale_exp, coef_exp, invalid }
        });
    prop_oneof![15 => main, 1 => collinear_case()].boxed()
}

pub fn run(opts: &Opts) -> i32 {
    let mut spec = Spec::new("C16", strategy, run_case);
    for clamped in [false, true] {
        for complex in [false, true] {
            spec.enumerated.push(Case { complex, clamped, x0: 0.0, hs: vec![1.0, 1.0, 1.0], ys: vec![(1.0, 0.5), (std::f64::consts::E, 1.0), (7.38905609893065, -1.0), (20.085536923187668, 0.0)], slopes: ((1.0, 0.0), (20.085536923187668, 0.0)), sampled: false, tol: 1e-12, yscale_exp: 0.0, coef_exp: [0.0; 4], invalid: 0 });
            for invalid in 1..=8u8 {
                spec.enumerated.push(Case { complex, clamped, x0: -1.0, hs: vec![0.5, 1.5], ys: vec![(1.0, 0.5), (2.0, 1.0), (0.0, -1.0)], slopes: ((1.0, 0.0), (-1.0, 0.5)), sampled: false, tol: 1e-12, yscale_exp: 0.0, coef_exp: [0.0; 4], invalid });
            }
        }
    }
    spec.cases = opts.tier.pick(150_000, 4_000_000);
    spec.essential = vec![("free", 0.3), ("clamped", 0.3), ("complex", 0.3), ("sampled", 0.15), ("invalid", 0.05), ("y-scaled", 0.3), ("loose-polynomial-tolerance", 0.3), ("tolerance-above-knot-spacing", 0.03)];
    spec.rule = "generated: 2-40 knots, spacings 10^[-1.7,0] (ratio <= 50; one case in eight evenly spaced with h = 1, 1/2, 1/8 or arbitrary) inside [-10,10], real and complex ordinates in [-3,3] times a common factor 1, 10^[-9,3] or 10^[-40,-9] (the spline is linear in the ordinates: no absolute threshold may enter) (or samples of a random cubic for clamped / line for free whose coefficients carry individual factors 10^[-8,0]: gently curved data), random end slopes; one case in sixteen has exactly collinear ordinates on an evenly spaced dyadic grid with end slopes that agree with the line at neither, one or both ends; polynomial zero-tolerance argument 10^[-14,0] (a fifth of the cases above 1e-4, i.e. also larger than the smallest knot spacing) (the oracle gives it no allowance: it must not move the spline); invalid: < 2 points (one point, no points), mismatched lengths (ordinates one short, one or three too many, one knot short), a decreasing knot pair, evaluation outside the range. Oracle: independent spline from a dense LU solve of the second-derivative system; on every interval values and slopes at both end knots (from inside) and 8 interior points within 64 eps (K(x) + g h^2), K the magnitude of the terms of the piece expanded in powers of x, g the decayed rounding scale of the second derivatives,, interpolation, continuity of the recovered second derivative across knots, zero end curvature (free) / prescribed end slopes (clamped), cubic/line reproduction; Err outside the range (evaluate and evaluate_derivative probed separately, both sides) and for the invalid class. Non-trivial = >= 4 knots with non-uniform spacing. Distinct = distinct case JSON.".into();
    spec.max_shrink_iters = 1500;
    run_spec(spec, opts)
}

//! C15 — Lagrange and Hermite interpolants reproduce their data and are unique.

use bacon_sci::interp::{hermite, lagrange};
use bacon_sci::polynomial::Polynomial;
use bverif::engine::*;
use bverif::refs::num::*;
use nalgebra::DMatrix;
use proptest::prelude::*;
use serde::{Deserialize, Serialize};

#[derive(Clone, Debug, Serialize, Deserialize)]
pub struct Case {
    pub complex: bool,
    /// 0 Lagrange, 1 Hermite
    pub kind: u8,
    /// nodes (re, im), separated by construction
    pub xs: Vec<(f64, f64)>,
    /// either the data themselves (arbitrary class) or the coefficients of the sampled polynomial
    pub vals: Vec<(f64, f64)>,
    pub dvals: Vec<(f64, f64)>,
    /// true: `vals` are ascending coefficients of a polynomial within the degree bound to sample from
    pub sampled: bool,
    pub perm: Vec<usize>,
    pub tol: f64,
    /// 0 valid, 1 ys shorter, 2 derivs shorter (Hermite), 3 ys longer
    pub mismatch: u8,
    /// sampled class only: `vals` are the coefficients of the Newton form over the listed nodes (Hermite: every node
    /// twice) instead of the monomial form, and the coefficient of order `.0` (>= 2) is scaled by 10^`.1` - data with
    /// a small genuine higher-order divided difference
    #[serde(default)]
    pub newton: Option<(usize, f64)>,
}

trait Fld: nalgebra::ComplexField<RealField = f64> + num_traits::FromPrimitive + Copy {
    fn from_c(z: C64) -> Self;
    fn to_c(self) -> C64;
}
impl Fld for f64 {
    fn from_c(z: C64) -> f64 {
        z.re
    }
    fn to_c(self) -> C64 {
        c(self, 0.0)
    }
}
impl Fld for C64 {
    fn from_c(z: C64) -> C64 {
        z
    }
    fn to_c(self) -> C64 {
        self
    }
}

fn call<N: Fld>(kind: u8, xs: &[C64], ys: &[C64], ds: &[C64], tol: f64) -> Result<Result<(usize, Vec<C64>), String>, Caught> {
    let x: Vec<N> = xs.iter().map(|&z| N::from_c(z)).collect();
    let y: Vec<N> = ys.iter().map(|&z| N::from_c(z)).collect();
    let d: Vec<N> = ds.iter().map(|&z| N::from_c(z)).collect();
    guard(|| {
        let p: Result<Polynomial<N>, String> = if kind == 0 { lagrange(&x, &y, tol) } else { hermite(&x, &y, &d, tol) };
        p.map(|p| (p.order(), (0..=p.order() + 1).map(|k| p.get_coefficient(k).to_c()).collect()))
    })
}

/// value and derivative of a coefficient vector, with evaluation scales
fn eval2(cf: &[C64], x: C64) -> (C64, C64, f64) {
    let v = horner_c(cf, x);
    let d = horner_c(&deriv_coeffs_c(cf, 1), x);
    // S = sum |c_k| |x|^k (k+1)
    let mut s = 0.0;
    let mut p = 1.0;
    for (k, a) in cf.iter().enumerate() {
        s += a.norm() * p * (k as f64 + 1.0);
        p *= x.norm();
    }
    (v, d, s)
}

fn growth(kind: u8, n: usize) -> f64 {
    if kind == 0 {
        64.0 * 4f64.powi(n as i32)
    } else {
        64.0 * 10f64.powi(n as i32)
    }
}

/// ||V^-1||_inf of the (confluent) Vandermonde matrix of the nodes; None if the harness cannot invert it
fn vinv_norm(kind: u8, xs: &[C64]) -> Option<f64> {
    let n = xs.len();
    let m = if kind == 0 { n } else { 2 * n };
    let mut v = DMatrix::<C64>::zeros(m, m);
    for (i, x) in xs.iter().enumerate() {
        let mut p = c(1.0, 0.0);
        for k in 0..m {
            v[(i, k)] = p;
            if kind == 1 && k >= 1 {
                // derivative row: k x^(k-1)
                v[(n + i, k)] = if k == 1 { c(1.0, 0.0) } else { x.powi(k as i32 - 1) * (k as f64) };
            }
            p *= x;
        }
    }
    let inv = v.try_inverse()?;
    let mut best: f64 = 0.0;
    for i in 0..m {
        let s: f64 = (0..m).map(|j| inv[(i, j)].norm()).sum();
        best = best.max(s);
    }
    Some(best)
}

pub fn run_case(case: &Case) -> Outcome {
    let mut o = Obs::new();
    let n = case.xs.len();
    if n == 0 {
        return o.discard("no nodes");
    }
    let z = |p: &(f64, f64)| if case.complex { c(p.0, p.1) } else { c(p.0, 0.0) };
    let kind = case.kind % 2;
    o.label(if kind == 0 { "lagrange" } else { "hermite" });
    o.label(if case.complex { "complex" } else { "real" });
    o.label(format!("nodes{n}"));
    let xs: Vec<C64> = case.xs.iter().map(z).collect();
    let dbound = if kind == 0 { n - 1 } else { 2 * n - 1 };
    // data
    let (ys, ds, truth): (Vec<C64>, Vec<C64>, Option<Vec<C64>>) = if case.sampled {
        let mut cf: Vec<C64> = case.vals.iter().chain(case.dvals.iter()).take(dbound + 1).map(z).collect();
        if let (Some((idx, e)), true) = (case.newton, dbound >= 2 && cf.len() == dbound + 1) {
            o.label("newton-form-small-difference");
            let idx = 2 + idx % (dbound - 1);
            cf[idx] *= 10f64.powf(e);
            // expand sum_k a_k prod_{l<k} (x - z_l) into ascending monomial coefficients
            let zs: Vec<C64> = (0..dbound).map(|l| if kind == 0 { xs[l] } else { xs[l / 2] }).collect();
            let mut mono = vec![c(0.0, 0.0); dbound + 1];
            let mut basis = vec![c(1.0, 0.0)];
            for k in 0..=dbound {
                for (d, b) in basis.iter().enumerate() {
                    mono[d] += cf[k] * b;
                }
                if k < dbound {
                    let mut nb = vec![c(0.0, 0.0); basis.len() + 1];
                    for (d, b) in basis.iter().enumerate() {
                        nb[d + 1] += b;
                        nb[d] -= zs[k] * b;
                    }
                    basis = nb;
                }
            }
            cf = mono;
        }
        let ys = xs.iter().map(|&x| horner_c(&cf, x)).collect();
        let dcf = deriv_coeffs_c(&cf, 1);
        let ds = xs.iter().map(|&x| horner_c(&dcf, x)).collect();
        (ys, ds, Some(cf))
    } else {
        (case.vals.iter().take(n).map(z).collect(), case.dvals.iter().take(n).map(z).collect(), None)
    };
    if ys.len() != n || ds.len() != n {
        return o.discard("not enough data values");
    }
    let tol = case.tol;
    // mismatched lengths
    if case.mismatch != 0 {
        o.label("mismatch");
        o.nontrivial = true;
        let (mut y2, mut d2) = (ys.clone(), ds.clone());
        match case.mismatch {
            1 => {
                y2.pop();
            }
            2 if kind == 1 => {
                d2.pop();
            }
            _ => y2.push(c(1.0, 0.0)),
        }
        let r = if case.complex { call::<C64>(kind, &xs, &y2, &d2, tol) } else { call::<f64>(kind, &xs, &y2, &d2, tol) };
        return match r {
            Ok(Err(_)) => o.pass(),
            Ok(Ok(_)) => o.fail("mismatched slice lengths returned Ok"),
            Err(Caught::Panic(m)) => o.fail(format!("mismatched slice lengths panicked: {m}")),
            Err(Caught::Budget(_)) => o.fail("budget"),
        };
    }
    let run = |xs: &[C64], ys: &[C64], ds: &[C64]| if case.complex { call::<C64>(kind, xs, ys, ds, tol) } else { call::<f64>(kind, xs, ys, ds, tol) };
    let (order, cf) = match run(&xs, &ys, &ds) {
        Ok(Ok(v)) => v,
        Ok(Err(e)) => return o.fail(format!("valid data returned Err({e})")),
        Err(Caught::Panic(m)) => return o.fail(format!("panicked: {m}")),
        Err(Caught::Budget(_)) => return o.fail("budget"),
    };
    o.set("order", order);
    if cf.iter().any(|a| !a.re.is_finite() || !a.im.is_finite()) {
        return o.fail("interpolant has non-finite coefficients");
    }
    // degree bound: always
    if order > dbound {
        return o.fail(format!("interpolant through {n} nodes has order {order} > {dbound}"));
    }
    o.nontrivial = n >= 3 && (case.complex || kind == 1 || case.perm.iter().enumerate().any(|(i, p)| i != *p));
    // accuracy sub-checks only for tolerances that do not dominate
    let accurate = tol <= 1e-12;
    if accurate {
        o.label("accuracy-class");
    }
    let g = growth(kind, n);
    let mut worst: f64 = 0.0;
    let mut worst_round: f64 = 0.0;
    let mut max_res: f64 = 0.0;
    let mut max_s: f64 = 0.0;
    // evaluation scale of the returned polynomial over the node set (the divided-difference recurrences
    // mix all nodes, so the absolute error at one node is governed by the global scale, not by the
    // scale at that node - which degenerates at x_i = 0)
    let sglob = xs.iter().map(|&x| eval2(&cf, x).2).fold(0.0, f64::max);
    // What the tolerance may do. (i) The final pass zeroes coefficients below tol: only coefficients that come back as
    // exact zeros can have been touched. (ii) lagrange's Neville intermediates carry the tolerance and lose a leading
    // coefficient below it - their leading coefficients are the divided differences of the listed data (times a node
    // gap before the division); hermite accumulates the Newton form in a polynomial with the default tolerance 1e-10,
    // which drops the top Newton coefficient when it is below that. If no divided difference is near the tolerance,
    // (ii) cannot have happened and the allowance covers (i) only.
    let trim_possible = {
        let zs: Vec<C64> = if kind == 0 { xs.clone() } else { xs.iter().flat_map(|&x| [x, x]).collect() };
        let m = zs.len();
        let mut col: Vec<C64> = if kind == 0 { ys.clone() } else { ys.iter().flat_map(|&y| [y, y]).collect() };
        let mut smallest = col.iter().map(|v| v.norm()).fold(f64::INFINITY, f64::min);
        let mut top = col[0];
        for j in 1..m {
            let mut next = vec![c(0.0, 0.0); m];
            for i in j..m {
                next[i] = if zs[i] == zs[i - j] { ds[i / 2] } else { (col[i] - col[i - 1]) / (zs[i] - zs[i - j]) };
                let gap = (zs[i] - zs[i - j]).norm();
                smallest = smallest.min(next[i].norm() * if gap > 0.0 { gap.min(1.0) } else { 1.0 });
            }
            col = next;
            top = col[j];
        }
        if kind == 0 {
            !(smallest >= 32.0 * tol)
        } else {
            !(top.norm() >= 4e-10)
        }
    };
    if trim_possible {
        o.label("intermediate-trim-possible");
    }
    for i in 0..n {
        let (v, d, _) = eval2(&cf, xs[i]);
        let s = sglob;
        let teff = 2.0 * tol.max(if kind == 1 && trim_possible { 1e-10 } else { 0.0 });
        let touched = |k: &usize| trim_possible || cf.get(*k).map_or(true, |a| a.re == 0.0 && a.im == 0.0);
        let ax = xs[i].norm();
        let tolterm = teff * (0..=dbound).filter(touched).map(|k| ax.powi(k as i32) * (k as f64 + 1.0)).sum::<f64>();
        // derivative: a coefficient change of tol at order k moves p' by k |x|^(k-1) tol
        let tolterm1 = tolterm + teff * (1..=dbound).filter(touched).map(|k| ax.powi(k as i32 - 1) * k as f64).sum::<f64>();
        let allow = tolterm + EPS * g * s.max(ys[i].norm()) + 1e-300;
        let r0 = (v - ys[i]).norm();
        max_res = max_res.max(r0);
        max_s = max_s.max(s);
        if accurate {
            worst_round = worst_round.max((r0 - tolterm).max(0.0) / (EPS * g * s.max(ys[i].norm()) + 1e-300));
        }
        {
            worst = worst.max(r0 / allow);
            if !(r0 <= allow) {
                return o.fail(format!("p(x_{i}) = {v:e} but y_{i} = {:e} (|diff| {r0:e} > {allow:e}); node {}", ys[i], xs[i]));
            }
        }
        if kind == 1 {
            let r1 = (d - ds[i]).norm();
            max_res = max_res.max(r1);
            let allow1 = tolterm1 + EPS * g * s.max(ds[i].norm()) + 1e-300;
            worst = worst.max(r1 / allow1);
            if accurate {
                worst_round = worst_round.max((r1 - tolterm1).max(0.0) / (EPS * g * s.max(ds[i].norm()) + 1e-300));
            }
            if !(r1 <= allow1) {
                return o.fail(format!("p'(x_{i}) = {d:e} but y'_{i} = {:e} (|diff| {r1:e} > {allow1:e})", ds[i]));
            }
        }
    }
    o.set("ratio_node", worst);
    o.set(&format!("ratio_node_rounding_k{kind}_n{n}"), worst_round);
    // uniqueness: sampled data => the interpolant is that polynomial
    let vn = vinv_norm(kind, &xs);
    if let (Some(truth), Some(vn)) = (&truth, vn) {
        o.label("sampled");
        let allow = 2.0 * vn * (max_res + 8.0 * n as f64 * EPS * max_s) + tol + 1e-300;
        let mut w: f64 = 0.0;
        for k in 0..=dbound.max(order) {
            let a = cf.get(k).copied().unwrap_or(c(0.0, 0.0));
            let b = truth.get(k).copied().unwrap_or(c(0.0, 0.0));
            w = w.max((a - b).norm());
        }
        o.set("ratio_unique", w / allow);
        if !(w <= allow) {
            return o.fail(format!("data sampled from a polynomial of degree <= {dbound}, but the interpolant's coefficients differ by {w:e} (> 2 |V^-1| (residual + rounding) + tol = {allow:e})"));
        }
    }
    // permutation of the node order
    if case.perm.len() == n && case.perm.iter().enumerate().any(|(i, p)| i != *p) {
        let mut seen = vec![false; n];
        for &p in &case.perm {
            if p >= n || seen[p] {
                return o.discard("not a permutation");
            }
            seen[p] = true;
        }
        o.label("permuted");
        let px: Vec<C64> = case.perm.iter().map(|&i| xs[i]).collect();
        let py: Vec<C64> = case.perm.iter().map(|&i| ys[i]).collect();
        let pd: Vec<C64> = case.perm.iter().map(|&i| ds[i]).collect();
        let (order2, cf2) = match run(&px, &py, &pd) {
            Ok(Ok(v)) => v,
            Ok(Err(e)) => return o.fail(format!("permuted data returned Err({e})")),
            Err(Caught::Panic(m)) => return o.fail(format!("panicked on permuted data: {m}")),
            Err(Caught::Budget(_)) => return o.fail("budget"),
        };
        if order2 > dbound {
            return o.fail("degree bound violated on permuted data");
        }
        if let Some(vn) = vn {
            // both interpolate the same data: difference = V^-1 (residual difference)
            let mut res2: f64 = 0.0;
            let mut s2: f64 = 0.0;
            for i in 0..n {
                let (v, d, s) = eval2(&cf2, xs[i]);
                res2 = res2.max((v - ys[i]).norm());
                if kind == 1 {
                    res2 = res2.max((d - ds[i]).norm());
                }
                s2 = s2.max(s);
            }
            let allow = 2.0 * vn * (max_res + res2 + 8.0 * n as f64 * EPS * max_s.max(s2)) + 2.0 * tol + 1e-300;
            let mut w: f64 = 0.0;
            for k in 0..=dbound {
                let a = cf.get(k).copied().unwrap_or(c(0.0, 0.0));
                let b = cf2.get(k).copied().unwrap_or(c(0.0, 0.0));
                w = w.max((a - b).norm());
            }
            o.set("ratio_perm", w / allow);
            if !(w <= allow) {
                return o.fail(format!("listing the points in a different order changes the coefficients by {w:e} (> {allow:e})"));
            }
        }
    }
    o.pass()
}

fn nodes(complex: bool) -> BoxedStrategy<Vec<(f64, f64)>> {
    // cells of a 0.4 grid, jitter <= 0.1 per coordinate => separation >= 0.2
    let jit = || prop_oneof![Just(0.0), (-32i32..=32).prop_map(|k| k as f64 * 0.1 / 32.0), (0u64..1 << 40).prop_map(|k| (k as f64 / (1u64 << 40) as f64 - 0.5) * 0.2)];
    // a ninth of the real designs: a monotonically listed grid of spacing 0.45 or 0.5 whose gaps are irregular by
    // 10^[-13,-5] - nearly but not exactly equally spaced
    let near_uniform = (3usize..=8, prop_oneof![Just(0.45), Just(0.5)], gen::fl(-13.0, -5.0), proptest::collection::vec(gen::fl(-1.0, 1.0), 8), any::<bool>())
        .prop_map(|(n, h, e, j, rev)| {
            let mut v: Vec<(f64, f64)> = (0..n).map(|k| (-h * (n - 1) as f64 / 2.0 + h * k as f64 + 10f64.powf(e) * j[k], 0.0)).collect();
            if rev {
                v.reverse();
            }
            v
        });
    if complex {
        let mut cells = vec![];
        for i in -5i32..=5 {
            for j in -5i32..=5 {
                let (x, y) = (i as f64 * 0.4, j as f64 * 0.4);
                if (x * x + y * y).sqrt() <= 1.85 {
                    cells.push((x, y));
                }
            }
        }
        // a sixth of the complex designs: distinct points of the half-integer lattice in the disc of radius 2 - node
        // differences that are exactly 1, i, 1+i, 0.5i, ... (unit modulus, purely imaginary, equal moduli)
        let mut lattice = vec![];
        for i in -4i32..=4 {
            for j in -4i32..=4 {
                let (x, y) = (i as f64 * 0.5, j as f64 * 0.5);
                if (x * x + y * y).sqrt() <= 2.0 {
                    lattice.push((x, y));
                }
            }
        }
        prop_oneof![
            5 => (1usize..=8, Just(cells).prop_shuffle(), proptest::collection::vec((jit(), jit()), 8))
                .prop_map(|(n, cells, j)| (0..n).map(|k| (cells[k].0 + j[k].0, cells[k].1 + j[k].1)).collect::<Vec<(f64, f64)>>()),
            1 => (2usize..=8, Just(lattice).prop_shuffle()).prop_map(|(n, l)| l[..n].to_vec()),
        ]
        .boxed()
    } else {
        let cells: Vec<f64> = (-4i32..=4).map(|i| i as f64 * 0.45).collect();
        prop_oneof![
            8 => (1usize..=8, Just(cells).prop_shuffle(), proptest::collection::vec(jit(), 8)).prop_map(|(n, cells, j)| (0..n).map(|k| (cells[k] + j[k], 0.0)).collect::<Vec<(f64, f64)>>()),
            1 => near_uniform,
        ]
        .boxed()
    }
}

fn strategy(_t: Tier) -> BoxedStrategy<Case> {
    let val = || (gen::fl(-2.0, 2.0), gen::fl(-2.0, 2.0));
    any::<bool>()
        .prop_flat_map(move |complex| {
            (
                Just(complex),
                0u8..2,
                nodes(complex),
                proptest::collection::vec(val(), 8),
                proptest::collection::vec(val(), 8),
                any::<bool>(),
                Just((0..8usize).collect::<Vec<_>>()).prop_shuffle(),
                prop_oneof![2 => gen::logu(-14.0, -12.0), 1 => gen::logu(-12.0, -6.0)],
                prop_oneof![12 => Just(0u8), 1 => 1u8..=3],
                (any::<bool>(), prop_oneof![4 => Just(None), 1 => (0usize..16, gen::fl(-10.0, -4.0)).prop_map(Some)]),
            )
        })
        .prop_map(|(complex, kind, xs, vals, dvals, sampled, perm8, tol, mismatch, (do_perm, newton))| {
            let n = xs.len();
            // restrict the shuffled 0..8 to a permutation of 0..n (stable order of the surviving entries)
            let perm: Vec<usize> = if do_perm { perm8.into_iter().filter(|&i| i < n).collect() } else { (0..n).collect() };
            Case { complex, kind, xs, vals, dvals, sampled, perm, tol, mismatch, newton: if sampled { newton } else { None } }
        })
        .boxed()
}

pub fn run(opts: &Opts) -> i32 {
    let mut spec = Spec::new("C15", strategy, run_case);
    // the crate's own examples: values of x^2 at three points, and Hermite of e^x data
    spec.enumerated.push(Case { complex: false, kind: 0, xs: vec![(-1.0, 0.0), (0.0, 0.0), (1.0, 0.0)], vals: vec![(1.0, 0.0), (0.0, 0.0), (1.0, 0.0)], dvals: vec![(0.0, 0.0); 3], sampled: false, perm: vec![2, 0, 1], tol: 1e-13, mismatch: 0, newton: None });
    spec.enumerated.push(Case { complex: false, kind: 1, xs: vec![(-1.0, 0.0), (0.5, 0.0), (1.25, 0.0)], vals: vec![(1.0, 0.0), (-2.0, 0.0), (0.5, 0.0), (0.25, 0.0)], dvals: vec![(1.0, 0.0), (1.0, 0.0), (-1.0, 0.0)], sampled: true, perm: vec![1, 2, 0], tol: 1e-13, mismatch: 0, newton: None });
    spec.cases = opts.tier.pick(300_000, 6_000_000);
    spec.essential = vec![("lagrange", 0.3), ("hermite", 0.3), ("complex", 0.3), ("permuted", 0.2), ("sampled", 0.3), ("mismatch", 0.05), ("nodes8", 0.05), ("accuracy-class", 0.4)];
    spec.rule = "generated: 1-8 nodes by grid construction (separation >= 0.2, in [-2,2] or the disc of radius 2; a sixth of the complex designs distinct points of the half-integer lattice: node differences exactly 1, i, 1+i, ...; a ninth of the real designs a monotonically listed grid of spacing 0.45/0.5 with gap irregularities 10^[-13,-5]), real and complex; data arbitrary in [-2,2] or sampled from a random polynomial within the degree bound (n-1 Lagrange, 2n-1 Hermite; a fifth of the sampled cases given in Newton form over the listed nodes with one coefficient of order >= 2 scaled by 10^[-10,-4]: a small genuine higher divided difference); a random permutation of the listing order; zeroing tolerance 10^[-14,-6]; mismatched slice lengths. Oracle: order() within the degree bound; node residuals |p(x_i)-y_i|, |p'(x_i)-y'_i| <= 2 tol sum_{k in Z}|x_i|^k(k+1) + eps G(n) S (Z = the coefficients returned as exact zeros - the only ones the final zeroing pass can have touched - unless a divided difference of the listed data is within 32 tol of zero (lagrange: an intermediate may have lost its leading coefficient) or the top Newton coefficient is below 4e-10 (hermite's accumulator), in which case Z = all k), S = max_j sum_k |c_k||x_j|^k(k+1) (G = 64*4^n Lagrange, 64*10^n Hermite); sampled data: coefficients equal the sampled polynomial within 2|V^-1|(residual + 8 n eps S) + tol with the (confluent) Vandermonde inverse computed in the harness; permuted listing satisfies the same inequality; mismatched lengths => Err. Non-trivial = >= 3 nodes and (complex or Hermite or permuted). Distinct = distinct case JSON.".into();
    spec.max_shrink_iters = 3000;
    run_spec(spec, opts)
}

//! C20 — the CODATA table and named constants reproduce the bundled NIST listing.
//! Exhaustive over the 354 rows (parsed independently of build.rs) and all named constants;
//! generated near-miss names must be absent.

use bacon_sci::constants as k;
use bverif::engine::*;
use proptest::prelude::*;
use serde::{Deserialize, Serialize};
use std::collections::HashMap;
use std::sync::OnceLock;

#[derive(Clone, Debug, Serialize, Deserialize)]
pub enum Case {
    Len,
    Row(usize),
    KeyBack(usize),
    Named(usize),
    Derived(usize),
    NearMiss { row: usize, kind: u8, pos: usize, ch: u8 },
}

#[derive(Clone, Debug)]
struct Row {
    name: String,
    value: f64,
    uncert: f64,
    unit: String,
    hazards: bool,
}

struct Table {
    rows: Vec<Row>,
    by_name: HashMap<String, usize>,
    err: Option<String>,
}

/// Independent tokenizer: fields are separated by runs of >= 2 blanks; digits inside a field are
/// separated by single blanks; "..." marks truncation; "(exact)" means uncertainty 0.
fn parse_table() -> Table {
    let mut t = Table { rows: vec![], by_name: HashMap::new(), err: None };
    let txt = match std::fs::read_to_string(repo_root().join("codata.txt")) {
        Ok(s) => s,
        Err(e) => {
            t.err = Some(format!("cannot read codata.txt: {e}"));
            return t;
        }
    };
    // the data start after the dashed rule
    let mut started = false;
    for line in txt.lines() {
        if !started {
            if line.starts_with("-----") {
                started = true;
            }
            continue;
        }
        if line.trim().is_empty() {
            continue;
        }
        let mut fields: Vec<String> = vec![];
        let mut cur = String::new();
        let mut blanks = 0;
        for ch in line.trim_end().chars() {
            if ch == ' ' {
                blanks += 1;
            } else {
                if blanks >= 2 && !cur.is_empty() {
                    fields.push(std::mem::take(&mut cur));
                } else if blanks == 1 {
                    cur.push(' ');
                }
                blanks = 0;
                cur.push(ch);
            }
        }
        if !cur.is_empty() {
            fields.push(cur);
        }
        if fields.len() != 3 && fields.len() != 4 {
            t.err = Some(format!("unexpected field count in line {line:?}"));
            return t;
        }
        let num = |s: &str| -> Option<f64> {
            let cleaned: String = s.replace("...", "").chars().filter(|c| *c != ' ').collect();
            cleaned.parse::<f64>().ok()
        };
        let value = match num(&fields[1]) {
            Some(v) => v,
            None => {
                t.err = Some(format!("bad value in line {line:?}"));
                return t;
            }
        };
        let uncert = if fields[2] == "(exact)" {
            0.0
        } else {
            match num(&fields[2]) {
                Some(v) => v,
                None => {
                    t.err = Some(format!("bad uncertainty in line {line:?}"));
                    return t;
                }
            }
        };
        let unit = fields.get(3).cloned().unwrap_or_default();
        let hazards = fields[1].contains('e') || fields[1].contains("...") || unit.contains(' ') || fields[2] == "(exact)";
        t.by_name.insert(fields[0].clone(), t.rows.len());
        t.rows.push(Row { name: fields[0].clone(), value, uncert, unit, hazards });
    }
    t
}

fn table() -> &'static Table {
    static T: OnceLock<Table> = OnceLock::new();
    T.get_or_init(parse_table)
}

/// (library constant name, library value, table row name, which column: 0 value / 1 uncertainty)
fn named() -> Vec<(&'static str, f64, &'static str, u8)> {
    vec![
        ("c", k::c, "speed of light in vacuum", 0),
        ("permittivity", k::permittivity, "vacuum electric permittivity", 0),
        ("permittivity_uncertainty", k::permittivity_uncertainty, "vacuum electric permittivity", 1),
        ("permeability", k::permeability, "vacuum mag. permeability", 0),
        ("permeability_uncertainty", k::permeability_uncertainty, "vacuum mag. permeability", 1),
        ("h", k::h, "Planck constant", 0),
        ("h_bar", k::h_bar, "reduced Planck constant", 0),
        ("G", k::G, "Newtonian constant of gravitation", 0),
        ("G_uncertainty", k::G_uncertainty, "Newtonian constant of gravitation", 1),
        ("g", k::g, "standard acceleration of gravity", 0),
        ("e_charge", k::e_charge, "elementary charge", 0),
        ("R", k::R, "molar gas constant", 0),
        ("fine_structure", k::fine_structure, "fine-structure constant", 0),
        ("fine_structure_uncertainty", k::fine_structure_uncertainty, "fine-structure constant", 1),
        ("avogadro", k::avogadro, "Avogadro constant", 0),
        ("boltzmann", k::boltzmann, "Boltzmann constant", 0),
        ("stefan_boltzmann", k::stefan_boltzmann, "Stefan-Boltzmann constant", 0),
        ("wien", k::wien, "Wien wavelength displacement law constant", 0),
        ("wien_frequency", k::wien_frequency, "Wien frequency displacement law constant", 0),
        ("rydberg", k::rydberg, "Rydberg constant", 0),
        ("rydberg_uncertainty", k::rydberg_uncertainty, "Rydberg constant", 1),
        ("electron_mass", k::electron_mass, "electron mass", 0),
        ("electron_mass_uncertainty", k::electron_mass_uncertainty, "electron mass", 1),
        ("proton_mass", k::proton_mass, "proton mass", 0),
        ("proton_mass_uncertainty", k::proton_mass_uncertainty, "proton mass", 1),
        ("neutron_mass", k::neutron_mass, "neutron mass", 0),
        ("neutron_mass_uncertainty", k::neutron_mass_uncertainty, "neutron mass", 1),
    ]
}

/// derived relations (name, lhs, rhs, relative tolerance). The tabulated values are truncated
/// ("...") to 10 significant digits, so 2e-9 relative is "the precision quoted".
fn derived() -> Vec<(&'static str, f64, f64, f64)> {
    let pi = std::f64::consts::PI;
    let x_w = 4.965114231744276_f64; // root of x = 5(1 - e^-x)
    let x_f = 2.8214393721220787_f64; // root of x = 3(1 - e^-x)
    vec![
        ("h_bar = h/2pi", k::h_bar, k::h / (2.0 * pi), 2e-9),
        ("R = N_A k", k::R, k::avogadro * k::boltzmann, 2e-9),
        (
            "sigma = 2 pi^5 k^4 / (15 h^3 c^2)",
            k::stefan_boltzmann,
            2.0 * pi.powi(5) * k::boltzmann.powi(4) / (15.0 * k::h.powi(3) * k::c * k::c),
            2e-9,
        ),
        ("b = h c / (x k)", k::wien, k::h * k::c / (x_w * k::boltzmann), 2e-9),
        ("b' = x' k / h", k::wien_frequency, x_f * k::boltzmann / k::h, 2e-9),
        ("c exact", k::c, 299_792_458.0, 0.0),
        ("h exact", k::h, 6.62607015e-34, 0.0),
        ("e exact", k::e_charge, 1.602176634e-19, 0.0),
        ("k exact", k::boltzmann, 1.380649e-23, 0.0),
        ("N_A exact", k::avogadro, 6.02214076e23, 0.0),
        ("g exact", k::g, 9.80665, 0.0),
        // mu_0 eps_0 c^2 = 1 within the quoted uncertainties (1.5e-10 relative each)
        ("eps0 mu0 c^2 = 1", k::permittivity * k::permeability * k::c * k::c, 1.0, 1e-9),
    ]
}

pub fn run_case(case: &Case) -> Outcome {
    let t = table();
    if let Some(e) = &t.err {
        return Outcome::fail(format!("independent parser failed: {e}"));
    }
    let mut o = Obs::new();
    match case {
        Case::Len => {
            o.label("len");
            o.set("parsed_rows", t.rows.len());
            o.set("table_len", k::CODATA.len());
            o.nontrivial = true;
            if t.rows.len() != 354 {
                return o.fail(format!("listing has {} rows, expected 354", t.rows.len()));
            }
            if t.by_name.len() != t.rows.len() {
                return o.fail("duplicate names in listing");
            }
            if k::CODATA.len() != t.rows.len() {
                return o.fail(format!("CODATA has {} entries, listing has {}", k::CODATA.len(), t.rows.len()));
            }
            o.pass()
        }
        Case::Row(i) => {
            o.label("row");
            let Some(r) = t.rows.get(*i) else { return o.discard("row index out of range") };
            o.nontrivial = r.hazards;
            if r.hazards {
                o.label("row-hazard");
            }
            o.set("name", &r.name);
            let Some(&(v, u, unit)) = k::CODATA.get(r.name.as_str()) else {
                return o.fail(format!("quantity {:?} is not retrievable by its exact name", r.name));
            };
            o.set("value", v);
            o.set("uncertainty", u);
            o.set("unit", unit);
            if v.to_bits() != r.value.to_bits() {
                return o.fail(format!("{:?}: value {v:e} != listed {:e}", r.name, r.value));
            }
            if u.to_bits() != r.uncert.to_bits() {
                return o.fail(format!("{:?}: uncertainty {u:e} != listed {:e}", r.name, r.uncert));
            }
            if unit != r.unit {
                return o.fail(format!("{:?}: unit {unit:?} != listed {:?}", r.name, r.unit));
            }
            o.pass()
        }
        Case::KeyBack(i) => {
            o.label("keyback");
            let mut keys: Vec<&&str> = k::CODATA.keys().collect();
            keys.sort();
            let Some(key) = keys.get(*i) else { return o.discard("key index out of range") };
            o.set("key", **key);
            o.nontrivial = true;
            if !t.by_name.contains_key(**key) {
                return o.fail(format!("CODATA contains {key:?} which is not a quantity of the listing"));
            }
            o.pass()
        }
        Case::Named(i) => {
            o.label("named");
            let n = named();
            let Some(&(cname, val, row, col)) = n.get(*i) else { return o.discard("index") };
            o.nontrivial = true;
            o.set("constant", cname);
            o.set("value", val);
            let Some(&ri) = t.by_name.get(row) else { return o.fail(format!("listing lacks {row:?}")) };
            let want = if col == 0 { t.rows[ri].value } else { t.rows[ri].uncert };
            if val.to_bits() != want.to_bits() {
                return o.fail(format!("constant {cname} = {val:e} but listing {row:?} gives {want:e}"));
            }
            // and through the table
            if let Some(&(v, u, _)) = k::CODATA.get(row) {
                let got = if col == 0 { v } else { u };
                if got.to_bits() != val.to_bits() {
                    return o.fail(format!("constant {cname} = {val:e} but CODATA[{row:?}] gives {got:e}"));
                }
            } else {
                return o.fail(format!("CODATA lacks {row:?}"));
            }
            o.pass()
        }
        Case::Derived(i) => {
            o.label("derived");
            let d = derived();
            let Some(&(name, lhs, rhs, tol)) = d.get(*i) else { return o.discard("index") };
            o.nontrivial = true;
            let rel = ((lhs - rhs) / rhs).abs();
            o.set("relation", name);
            o.set("rel_err", rel);
            if !(rel <= tol) {
                return o.fail(format!("{name}: {lhs:e} vs {rhs:e}, relative {rel:e} > {tol:e}"));
            }
            o.pass()
        }
        Case::NearMiss { row, kind, pos, ch } => {
            o.label("nearmiss");
            let r = &t.rows[*row % t.rows.len()];
            let mut chars: Vec<char> = r.name.chars().collect();
            let p = *pos % chars.len();
            let c = (b' ' + (*ch % 95)) as char;
            match kind % 4 {
                0 => {
                    chars.remove(p);
                }
                1 => chars.insert(p, c),
                2 => chars[p] = c,
                _ => {
                    // case flip
                    chars[p] = if chars[p].is_ascii_lowercase() { chars[p].to_ascii_uppercase() } else { chars[p].to_ascii_lowercase() }
                }
            }
            let name: String = chars.into_iter().collect();
            o.set("name", &name);
            if t.by_name.contains_key(&name) {
                // the edit landed on another genuine quantity: must be present with that row's data
                o.label("nearmiss-genuine");
                return if k::CODATA.get(name.as_str()).is_some() { o.pass() } else { o.fail(format!("{name:?} missing")) };
            }
            o.nontrivial = true;
            if k::CODATA.get(name.as_str()).is_some() {
                return o.fail(format!("CODATA contains {name:?}, which is not in the listing"));
            }
            o.pass()
        }
    }
}

fn strategy(_t: Tier) -> BoxedStrategy<Case> {
    (0usize..354, 0u8..4, 0usize..64, 0u8..95)
        .prop_map(|(row, kind, pos, ch)| Case::NearMiss { row, kind, pos, ch })
        .boxed()
}

pub fn run(opts: &Opts) -> i32 {
    let mut spec = Spec::new("C20", strategy, run_case);
    let nrows = table().rows.len();
    let nkeys = k::CODATA.len();
    spec.enumerated.push(Case::Len);
    spec.enumerated.extend((0..nrows).map(Case::Row));
    spec.enumerated.extend((0..nkeys).map(Case::KeyBack));
    spec.enumerated.extend((0..named().len()).map(Case::Named));
    spec.enumerated.extend((0..derived().len()).map(Case::Derived));
    spec.cases = opts.tier.pick(20_000, 400_000);
    spec.exhaustive = Some("all rows of /repo/codata.txt (forward), all keys of CODATA (backward), all 27 named constants, 12 derived relations".into());
    spec.rule = "enumerated: every row of codata.txt parsed by an independent blank-run tokenizer (name/value/uncertainty/unit compared bit-for-bit with CODATA.get(name)), every CODATA key looked up in the parsed listing, every pub const compared with its row, derived relations; generated: one-edit near-miss names (delete/insert/replace/case-flip) which must be absent. Non-trivial = a row whose value has an exponent, an ellipsis, '(exact)' or a multi-word unit; every key-back, named, derived case; every near-miss that is not itself a genuine name. Distinct = distinct case JSON.".into();
    spec.assumptions = vec![
        "str::parse::<f64> and rustc's literal parser are both correctly rounded".into(),
        "the harness links the working tree of /repo (build.rs regenerates the table from /repo/codata.txt)".into(),
        "name mapping constant -> NIST quantity as documented in DESIGN.md / notes/README.md".into(),
    ];
    run_spec(spec, opts)
}

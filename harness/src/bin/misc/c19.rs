//! C19 — finite-difference derivatives are exact on low-degree polynomials, linear, and obey the
//! classical remainder bounds.

use bacon_sci::differentiate::{derivative, second_derivative};
use bverif::engine::*;
use bverif::refs::num::*;
use proptest::prelude::*;
use serde::{Deserialize, Serialize};

#[derive(Clone, Debug, Serialize, Deserialize)]
pub enum Case {
    /// polynomial with (re, im) coefficients in ascending order; `complex=false` uses f64 and ignores im
    /// `mag_exp`: all coefficients times 10^mag_exp (both formulas are homogeneous in f: no absolute threshold may
    /// enter); `im_exp`: the imaginary parts additionally times 10^im_exp (a weakly complex function)
    Poly {
        complex: bool,
        coef: Vec<(f64, f64)>,
        x: f64,
        h: f64,
        #[serde(default)]
        mag_exp: f64,
        #[serde(default)]
        im_exp: f64,
        /// single precision: the same checks through the f32 / Complex<f32> instantiations, with the f32 unit roundoff
        #[serde(default)]
        single: bool,
    },
    /// A sin(a x + phi) + B exp(b x)
    Smooth { amp: f64, a: f64, phi: f64, bmp: f64, b: f64, x: f64, h: f64 },
    /// linearity: D[alpha f + beta g] = alpha D[f] + beta D[g], f polynomial, g = sin(a x)+exp(b x)
    Linear { coef: Vec<f64>, a: f64, b: f64, alpha: f64, beta: f64, x: f64, h: f64 },
}

fn ratio(err: f64, bound: f64) -> f64 {
    if err <= bound {
        if bound > 0.0 { err / bound } else { 0.0 }
    } else if bound > 0.0 {
        err / bound
    } else {
        f64::INFINITY
    }
}

const K1: f64 = 64.0; // rounding constant, first derivative:  K1 * eps * S / h
const K2: f64 = 128.0; // rounding constant, second derivative: K2 * eps * S / h^2

pub fn run_case(case: &Case) -> Outcome {
    let mut o = Obs::new();
    match case {
        Case::Poly { complex, coef, x, h, mag_exp, im_exp, single: true } => {
            // single precision: coefficients, point and step rounded to f32 first; the truth is computed in double
            // precision from the rounded data; exactness classes only (degree <= 5)
            use nalgebra::Complex;
            o.label("single-precision");
            o.label(if *complex { "complex" } else { "real" });
            let (fr, fi) = (10f64.powf(mag_exp.clamp(-6.0, 6.0)), 10f64.powf(mag_exp.clamp(-6.0, 6.0) + im_exp.max(-4.0)));
            let c32: Vec<(f32, f32)> = coef.iter().take(6).map(|&(r, i)| ((r * fr) as f32, if *complex { (i * fi) as f32 } else { 0.0 })).collect();
            let (x32, h32) = (*x as f32, *h as f32);
            let (xd, hs) = (x32 as f64, h32 as f64);
            let h = hs.abs();
            let deg = c32.len() - 1;
            o.label(format!("deg{deg}"));
            let cc: Vec<C64> = c32.iter().map(|&(r, i)| c(r as f64, i as f64)).collect();
            let (d1, d2): (C64, C64) = if *complex {
                let f = |t: f32| {
                    let mut acc = Complex::<f32>::new(0.0, 0.0);
                    for &(r, i) in c32.iter().rev() {
                        acc = acc * t + Complex::<f32>::new(r, i);
                    }
                    acc
                };
                let (a, b) = (derivative::<Complex<f32>>(f, x32, h32), second_derivative::<Complex<f32>>(f, x32, h32));
                (c(a.re as f64, a.im as f64), c(b.re as f64, b.im as f64))
            } else {
                let f = |t: f32| {
                    let mut acc = 0.0f32;
                    for &(r, _) in c32.iter().rev() {
                        acc = acc * t + r;
                    }
                    acc
                };
                (c(derivative::<f32>(f, x32, h32) as f64, 0.0), c(second_derivative::<f32>(f, x32, h32) as f64, 0.0))
            };
            let xc = c(xd, 0.0);
            let t1 = horner_c(&deriv_coeffs_c(&cc, 1), xc);
            let t2 = horner_c(&deriv_coeffs_c(&cc, 2), xc);
            let t4 = horner_c(&deriv_coeffs_c(&cc, 4), xc);
            let t5 = horner_c(&deriv_coeffs_c(&cc, 5), xc);
            let eps32 = f32::EPSILON as f64;
            let s_re = abs_scale_c(&cc.iter().map(|z| c(z.re, 0.0)).collect::<Vec<_>>(), xd.abs() + 2.0 * h);
            let s_im = abs_scale_c(&cc.iter().map(|z| c(z.im, 0.0)).collect::<Vec<_>>(), xd.abs() + 2.0 * h);
            let e1 = d1 - t1 - (-t5 * (h.powi(4) / 30.0));
            let e2 = d2 - t2 - t4 * (h * h / 12.0);
            let r1 = ratio(e1.re.abs(), K1 * eps32 * s_re / h + 1e-300).max(ratio(e1.im.abs(), K1 * eps32 * s_im / h + 1e-300));
            let r2 = ratio(e2.re.abs(), K2 * eps32 * s_re / (h * h) + 1e-300).max(ratio(e2.im.abs(), K2 * eps32 * s_im / (h * h) + 1e-300));
            o.set("ratio_round_first_f32", r1);
            o.set("ratio_round_second_f32", r2);
            if !(r1 <= 1.0) {
                return o.fail(format!("single precision: first derivative of a degree-{deg} polynomial differs from f' (+ the exact h^4 term) by {e1:e}; allowance {K1} eps32 S/h = {:e}", K1 * eps32 * s_re / h));
            }
            if !(r2 <= 1.0) {
                return o.fail(format!("single precision: second derivative of a degree-{deg} polynomial differs from f'' (+ the exact h^2 term) by {e2:e}; allowance {K2} eps32 S/h^2 = {:e}", K2 * eps32 * s_re / (h * h)));
            }
            o.nontrivial = deg >= 2;
            o.pass()
        }
        Case::Poly { complex, coef, x, h, mag_exp, im_exp, .. } => {
            let (fr, fi) = (10f64.powf(*mag_exp), 10f64.powf(*mag_exp + *im_exp));
            let coef: &Vec<(f64, f64)> = &coef.iter().map(|&(r, i)| (r * fr, i * fi)).collect();
            if *mag_exp != 0.0 {
                o.label("scaled-magnitude");
            }
            if *im_exp != 0.0 && *complex {
                o.label("weakly-complex");
            }
            let (x, hs) = (*x, *h);
            // a negative step is a backward step: both formulas are even in h; the bounds use |h|
            let h = hs.abs();
            if hs < 0.0 {
                o.label("negative-step");
            }
            let deg = coef.len() - 1;
            o.label(format!("deg{deg}"));
            o.label(if *complex { "complex" } else { "real" });
            let cc: Vec<C64> = coef.iter().map(|&(r, i)| if *complex { c(r, i) } else { c(r, 0.0) }).collect();
            let cr: Vec<f64> = coef.iter().map(|p| p.0).collect();
            let s = abs_scale_c(&cc, x.abs() + 2.0 * h);
            let (d1, d2): (C64, C64) = if *complex {
                let f = |t: f64| horner_c(&cc, c(t, 0.0));
                (derivative::<C64>(f, x, hs), second_derivative::<C64>(f, x, hs))
            } else {
                let f = |t: f64| horner(&cr, t);
                (c(derivative::<f64>(f, x, hs), 0.0), c(second_derivative::<f64>(f, x, hs), 0.0))
            };
            let xc = c(x, 0.0);
            let t1 = horner_c(&deriv_coeffs_c(&cc, 1), xc);
            let t2 = horner_c(&deriv_coeffs_c(&cc, 2), xc);
            let t4 = horner_c(&deriv_coeffs_c(&cc, 4), xc);
            let t5 = horner_c(&deriv_coeffs_c(&cc, 5), xc);
            let r1 = K1 * EPS * s / h;
            let r2 = K2 * EPS * s / (h * h);
            // first derivative: exact up to degree 4; degree 5: D f - f' = -h^4 f^(5)/30 exactly;
            // degree 6: f^(5) varies over the stencil -> bound with max |f^(5)|
            let e1 = d1 - t1;
            let pred1 = -t5 * (h.powi(4) / 30.0);
            let ratio1;
            // x and h are real: real and imaginary parts go through the formulas separately, each with its own scale
            let s_re = abs_scale_c(&cc.iter().map(|z| c(z.re, 0.0)).collect::<Vec<_>>(), x.abs() + 2.0 * h);
            let s_im = abs_scale_c(&cc.iter().map(|z| c(z.im, 0.0)).collect::<Vec<_>>(), x.abs() + 2.0 * h);
            if deg <= 5 {
                let d = e1 - pred1;
                ratio1 = ratio((e1 - pred1).norm(), r1).max(ratio(d.re.abs(), K1 * EPS * s_re / h + 1e-300)).max(ratio(d.im.abs(), K1 * EPS * s_im / h + 1e-300));
                if !(ratio1 <= 1.0) {
                    return o.fail(format!("first derivative of degree-{deg} polynomial: D f - f' = {e1:e}, predicted {pred1:e}, rounding allowance {r1:e}"));
                }
            } else {
                // degree 6: f^(5) is linear; max over [x-2h, x+2h]
                let c5 = deriv_coeffs_c(&cc, 5);
                let m5 = horner_c(&c5, c(x - 2.0 * h, 0.0)).norm().max(horner_c(&c5, c(x + 2.0 * h, 0.0)).norm());
                let bound = h.powi(4) * m5 / 30.0 + r1;
                ratio1 = ratio(e1.norm(), bound);
                if !(ratio1 <= 1.0) {
                    return o.fail(format!("first derivative remainder bound violated: |e|={:e} > {bound:e}", e1.norm()));
                }
            }
            // second derivative: exact up to degree 3; degree 4,5: D2 f - f'' = h^2 f^(4)(x)/12 exactly
            let e2 = d2 - t2;
            let ratio2;
            if deg <= 5 {
                let pred2 = t4 * (h * h / 12.0);
                let d = e2 - pred2;
                ratio2 = ratio((e2 - pred2).norm(), r2).max(ratio(d.re.abs(), K2 * EPS * s_re / (h * h) + 1e-300)).max(ratio(d.im.abs(), K2 * EPS * s_im / (h * h) + 1e-300));
                if !(ratio2 <= 1.0) {
                    return o.fail(format!("second derivative of degree-{deg} polynomial: D2 f - f'' = {e2:e}, predicted {pred2:e}, allowance {r2:e}"));
                }
            } else {
                let c4 = deriv_coeffs_c(&cc, 4);
                // f^(4) quadratic: bound its modulus on [x-h, x+h] by the abs-scale
                let m4 = abs_scale_c(&c4, x.abs() + h);
                let bound = h * h * m4 / 12.0 + r2;
                ratio2 = ratio(e2.norm(), bound);
                if !(ratio2 <= 1.0) {
                    return o.fail(format!("second derivative remainder bound violated: |e|={:e} > {bound:e}", e2.norm()));
                }
            }
            if deg <= 5 {
                o.set("ratio_round_first", ratio1);
                o.set("ratio_round_second", ratio2);
            } else {
                o.set("ratio_rem_first", ratio1);
                o.set("ratio_rem_second", ratio2);
            }
            o.set("D1", (d1.re, d1.im));
            o.set("D2", (d2.re, d2.im));
            o.nontrivial = deg >= 2;
            o.pass()
        }
        Case::Smooth { amp, a, phi, bmp, b, x, h } => {
            let (amp, a, phi, bmp, b, x, hs) = (*amp, *a, *phi, *bmp, *b, *x, *h);
            let h = hs.abs();
            o.label("smooth");
            let f = move |t: f64| amp * (a * t + phi).sin() + bmp * (b * t).exp();
            let d1 = derivative::<f64>(f, x, hs);
            let d2 = second_derivative::<f64>(f, x, hs);
            let t1 = amp * a * (a * x + phi).cos() + bmp * b * (b * x).exp();
            let t2 = -amp * a * a * (a * x + phi).sin() + bmp * b * b * (b * x).exp();
            let emax = |w: f64| (b * (x - w)).exp().max((b * (x + w)).exp());
            let m5 = amp.abs() * a.abs().powi(5) + bmp.abs() * b.abs().powi(5) * emax(2.0 * h);
            let m4 = amp.abs() * a.powi(4) + bmp.abs() * b.powi(4) * emax(h);
            // rounding: function values carry a few ulp (libm) plus the argument rounding a*eps*|t|
            let s = (amp.abs() * (1.0 + a.abs() * (x.abs() + 2.0 * h)) + bmp.abs() * emax(2.0 * h) * (1.0 + b.abs() * (x.abs() + 2.0 * h))) * 4.0;
            let b1 = h.powi(4) * m5 / 30.0 + K1 * EPS * s / h;
            let b2 = h * h * m4 / 12.0 + K2 * EPS * s / (h * h);
            let r1 = ratio((d1 - t1).abs(), b1);
            let r2 = ratio((d2 - t2).abs(), b2);
            o.set("ratio_rem_first", r1);
            o.set("ratio_rem_second", r2);
            o.nontrivial = true;
            if !(r1 <= 1.0) {
                return o.fail(format!("first derivative: |D f - f'| = {:e} exceeds h^4 max|f5|/30 + rounding = {b1:e}", (d1 - t1).abs()));
            }
            if !(r2 <= 1.0) {
                return o.fail(format!("second derivative: |D2 f - f''| = {:e} exceeds h^2 max|f4|/12 + rounding = {b2:e}", (d2 - t2).abs()));
            }
            // the remainder must also be *attained* to leading order when it dominates rounding
            // (guards against a formula of too high an accuracy claim being replaced by a sloppier one
            //  is covered above; this guards against D returning the exact derivative by other means: no claim)
            o.pass()
        }
        Case::Linear { coef, a, b, alpha, beta, x, h } => {
            let (a, b, alpha, beta, x, hs) = (*a, *b, *alpha, *beta, *x, *h);
            let h = hs.abs();
            o.label("linear");
            let cf = coef.clone();
            let f = move |t: f64| horner(&cf, t);
            let g = move |t: f64| (a * t).sin() + (b * t).exp();
            let cf2 = coef.clone();
            let comb = move |t: f64| alpha * horner(&cf2, t) + beta * ((a * t).sin() + (b * t).exp());
            let s = alpha.abs() * abs_scale(coef, x.abs() + 2.0 * h) + beta.abs() * (1.0 + (b * (x - 2.0 * h)).exp().max((b * (x + 2.0 * h)).exp()));
            let l1 = derivative::<f64>(&comb, x, hs);
            let r1 = alpha * derivative::<f64>(&f, x, hs) + beta * derivative::<f64>(&g, x, hs);
            let l2 = second_derivative::<f64>(&comb, x, hs);
            let r2 = alpha * second_derivative::<f64>(&f, x, hs) + beta * second_derivative::<f64>(&g, x, hs);
            let q1 = ratio((l1 - r1).abs(), K1 * EPS * s / h);
            let q2 = ratio((l2 - r2).abs(), K2 * EPS * s / (h * h));
            o.set("ratio_lin_first", q1);
            o.set("ratio_lin_second", q2);
            o.nontrivial = true;
            if !(q1 <= 1.0) {
                return o.fail(format!("first derivative not linear: {l1:e} vs {r1:e}"));
            }
            if !(q2 <= 1.0) {
                return o.fail(format!("second derivative not linear: {l2:e} vs {r2:e}"));
            }
            o.pass()
        }
    }
}

fn coef_strategy(max_deg: usize) -> BoxedStrategy<Vec<(f64, f64)>> {
    (0..=max_deg)
        .prop_flat_map(|d| proptest::collection::vec((gen::fl(-3.0, 3.0), gen::fl(-3.0, 3.0)), d + 1))
        .boxed()
}

/// step 10^[-3,-0.3], one in four negative (backward)
fn step() -> BoxedStrategy<f64> {
    (gen::logu(-3.0, -0.3), prop_oneof![3 => Just(1.0), 1 => Just(-1.0)]).prop_map(|(h, s)| h * s).boxed()
}

fn strategy(_t: Tier) -> BoxedStrategy<Case> {
    let poly = (any::<bool>(), coef_strategy(6), gen::fl(-3.0, 3.0), step(), (prop_oneof![3 => Just(0.0), 1 => gen::fl(-30.0, 10.0)], prop_oneof![3 => Just(0.0), 1 => gen::fl(-12.0, -3.0)], prop_oneof![5 => Just(false), 1 => Just(true)]))
        .prop_map(|(complex, coef, x, h, (mag_exp, im_exp, single))| Case::Poly { complex, coef, x, h, mag_exp, im_exp, single });
    let smooth = (gen::fl(-2.0, 2.0), gen::fl(0.2, 3.0), gen::fl(0.0, 6.0), gen::fl(-2.0, 2.0), gen::fl(-1.5, 1.5), gen::fl(-3.0, 3.0), step())
        .prop_map(|(amp, a, phi, bmp, b, x, h)| Case::Smooth { amp, a, phi, bmp, b, x, h });
    let lin = (
        coef_strategy(4),
        gen::fl(0.2, 3.0),
        gen::fl(-1.0, 1.0),
        gen::fl(-3.0, 3.0),
        gen::fl(-3.0, 3.0),
        gen::fl(-3.0, 3.0),
        step(),
    )
        .prop_map(|(coef, a, b, alpha, beta, x, h)| Case::Linear { coef: coef.into_iter().map(|p| p.0).collect(), a, b, alpha, beta, x, h });
    prop_oneof![6 => poly, 2 => smooth, 2 => lin].boxed()
}

pub fn run(opts: &Opts) -> i32 {
    let mut spec = Spec::new("C19", strategy, run_case);
    // deterministic: monomials x^k, k=0..6, real and complex, at a few (x,h)
    for k in 0..=6usize {
        for &(x, h) in &[(0.0, 0.5), (1.0, 0.1), (-3.0, 1e-3), (2.5, 0.25)] {
            for complex in [false, true] {
                let mut coef = vec![(0.0, 0.0); k + 1];
                coef[k] = (1.0, if complex { -0.5 } else { 0.0 });
                spec.enumerated.push(Case::Poly { complex, coef, x, h, mag_exp: 0.0, im_exp: 0.0, single: false });
            }
        }
    }
    spec.cases = opts.tier.pick(600_000, 20_000_000);
    spec.essential = vec![("deg4", 0.02), ("deg5", 0.02), ("deg3", 0.02), ("complex", 0.1), ("smooth", 0.05), ("linear", 0.05)];
    spec.rule = format!(
        "generated: polynomials of degree 0..6 (real and complex coefficients in [-3,3]; a quarter of the cases times a common factor 10^[-30,10], a quarter of the complex cases with imaginary parts times 10^[-12,-3]; one polynomial case in six through the f32 / Complex<f32> instantiations - degree <= 5, magnitudes within 10^[-6,6], the same bounds with the f32 unit roundoff), x in [-3,3], |h| in 10^[-3,-0.3] with a quarter of the steps negative (both formulas are even in h); oracle: exact term-wise derivative; D f - f' must equal -h^4 f^(5)(x)/30 (zero up to degree 4) within {K1} eps S/h, D2 f - f'' must equal h^2 f^(4)(x)/12 (zero up to degree 3) within {K2} eps S/h^2, S = sum|c_k|(|x|+2h)^k, real and imaginary parts each also within their own S (x and h are real: the two parts go through the formulas separately); degree 6 and A sin(ax+phi)+B exp(bx): classical remainder bounds; linearity of both formulas. Non-trivial = polynomial degree >= 2, every smooth and linearity case. Distinct = distinct case JSON."
    );
    spec.assumptions = vec!["libm sin/exp accurate to a few ulp".into(), "harness Horner evaluation error is covered by the rounding allowance".into()];
    run_spec(spec, opts)
}

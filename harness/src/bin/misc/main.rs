mod c19;
mod c20;

fn main() {
    let opts = bverif::engine::parse_args();
    let code = match opts.prop.as_str() {
        "C19" => c19::run(&opts),
        "C20" => c20::run(&opts),
        p => {
            eprintln!("misc: unknown property {p}");
            2
        }
    };
    std::process::exit(code);
}

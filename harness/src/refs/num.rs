//! Small numerical helpers: complex type alias, polynomial helpers in naive arithmetic.
pub use num_complex::Complex;
pub type C64 = Complex<f64>;

pub fn c(re: f64, im: f64) -> C64 {
    C64::new(re, im)
}

/// Horner evaluation, coefficients in ascending order.
pub fn horner(c: &[f64], x: f64) -> f64 {
    let mut acc = 0.0;
    for &a in c.iter().rev() {
        acc = acc * x + a;
    }
    acc
}

pub fn horner_c(c: &[C64], x: C64) -> C64 {
    let mut acc = C64::new(0.0, 0.0);
    for &a in c.iter().rev() {
        acc = acc * x + a;
    }
    acc
}

/// sum |c_k| |x|^k (evaluation scale)
pub fn abs_scale(c: &[f64], x: f64) -> f64 {
    let mut acc = 0.0;
    for &a in c.iter().rev() {
        acc = acc * x.abs() + a.abs();
    }
    acc
}

pub fn abs_scale_c(c: &[C64], x: f64) -> f64 {
    let mut acc = 0.0;
    for &a in c.iter().rev() {
        acc = acc * x.abs() + a.norm();
    }
    acc
}

/// coefficients of the k-th derivative (ascending)
pub fn deriv_coeffs(c: &[f64], k: usize) -> Vec<f64> {
    let mut v = c.to_vec();
    for _ in 0..k {
        if v.len() <= 1 {
            return vec![0.0];
        }
        v = v.iter().enumerate().skip(1).map(|(i, a)| a * i as f64).collect();
    }
    v
}

pub fn deriv_coeffs_c(c: &[C64], k: usize) -> Vec<C64> {
    let mut v = c.to_vec();
    for _ in 0..k {
        if v.len() <= 1 {
            return vec![C64::new(0.0, 0.0)];
        }
        v = v.iter().enumerate().skip(1).map(|(i, a)| a * i as f64).collect();
    }
    v
}

/// naive product of coefficient vectors (ascending)
pub fn naive_mul_c(a: &[C64], b: &[C64]) -> Vec<C64> {
    let mut out = vec![C64::new(0.0, 0.0); a.len() + b.len() - 1];
    for (i, x) in a.iter().enumerate() {
        for (j, y) in b.iter().enumerate() {
            out[i + j] += x * y;
        }
    }
    out
}

pub fn naive_mul(a: &[f64], b: &[f64]) -> Vec<f64> {
    let mut out = vec![0.0; a.len() + b.len() - 1];
    for (i, x) in a.iter().enumerate() {
        for (j, y) in b.iter().enumerate() {
            out[i + j] += x * y;
        }
    }
    out
}

pub fn norm1(a: &[f64]) -> f64 {
    a.iter().map(|x| x.abs()).sum()
}

pub fn norm1_c(a: &[C64]) -> f64 {
    a.iter().map(|x| x.norm()).sum()
}

//! Independent quadrature references: Gauss rules by Golub–Welsch (symmetric tridiagonal eigenproblem),
//! closed-form Chebyshev rules, the double-exponential (tanh-sinh) node formula and exact moments.

use nalgebra::{DMatrix, SymmetricEigen};

#[derive(Clone, Copy, Debug, PartialEq, Eq)]
pub enum Family {
    Legendre,
    Hermite,
    Laguerre,
    Chebyshev1,
    Chebyshev2,
}

pub const FAMILIES: [Family; 5] = [Family::Legendre, Family::Hermite, Family::Laguerre, Family::Chebyshev1, Family::Chebyshev2];

impl Family {
    pub fn name(self) -> &'static str {
        match self {
            Family::Legendre => "legendre",
            Family::Hermite => "hermite",
            Family::Laguerre => "laguerre",
            Family::Chebyshev1 => "chebyshev",
            Family::Chebyshev2 => "chebyshev_second",
        }
    }
    pub fn index(self) -> usize {
        self as usize
    }
    /// mu_0 = integral of the weight function
    pub fn mu0(self) -> f64 {
        let pi = std::f64::consts::PI;
        match self {
            Family::Legendre => 2.0,
            Family::Hermite => pi.sqrt(),
            Family::Laguerre => 1.0,
            Family::Chebyshev1 => pi,
            Family::Chebyshev2 => pi / 2.0,
        }
    }
    /// exact moment of x^k against the weight
    pub fn moment(self, k: usize) -> f64 {
        let pi = std::f64::consts::PI;
        match self {
            Family::Legendre => {
                if k % 2 == 1 {
                    0.0
                } else {
                    2.0 / (k as f64 + 1.0)
                }
            }
            Family::Hermite => {
                // Gamma((k+1)/2) = sqrt(pi) (k-1)!! / 2^(k/2)
                if k % 2 == 1 {
                    0.0
                } else {
                    let mut v = pi.sqrt();
                    let mut j = 1;
                    while j < k {
                        v *= j as f64 / 2.0;
                        j += 2;
                    }
                    v
                }
            }
            Family::Laguerre => (1..=k).fold(1.0, |a, j| a * j as f64),
            Family::Chebyshev1 => {
                // pi (k-1)!!/k!!
                if k % 2 == 1 {
                    0.0
                } else {
                    let mut v = pi;
                    let mut j = 1;
                    while j < k {
                        v *= j as f64 / (j as f64 + 1.0);
                        j += 2;
                    }
                    v
                }
            }
            Family::Chebyshev2 => {
                // pi/(k+2) (k-1)!!/k!!
                if k % 2 == 1 {
                    0.0
                } else {
                    let mut v = pi / (k as f64 + 2.0);
                    let mut j = 1;
                    while j < k {
                        v *= j as f64 / (j as f64 + 1.0);
                        j += 2;
                    }
                    v
                }
            }
        }
    }
    pub fn domain(self) -> (f64, f64) {
        match self {
            Family::Hermite => (f64::NEG_INFINITY, f64::INFINITY),
            Family::Laguerre => (0.0, f64::INFINITY),
            _ => (-1.0, 1.0),
        }
    }
    /// orthonormal polynomials phi_0..phi_m at x (stable recurrences / trigonometric forms)
    pub fn orthonormal(self, m: usize, x: f64) -> Vec<f64> {
        let pi = std::f64::consts::PI;
        let mut v = Vec::with_capacity(m + 1);
        match self {
            Family::Legendre => {
                // P_j with norm^2 = 2/(2j+1)
                let (mut p0, mut p1) = (1.0, x);
                for j in 0..=m {
                    let pj = if j == 0 {
                        1.0
                    } else if j == 1 {
                        x
                    } else {
                        let jf = (j - 1) as f64;
                        let p2 = ((2.0 * jf + 1.0) * x * p1 - jf * p0) / (jf + 1.0);
                        p0 = p1;
                        p1 = p2;
                        p2
                    };
                    v.push(pj * ((2.0 * j as f64 + 1.0) / 2.0).sqrt());
                }
            }
            Family::Hermite => {
                let mut h0 = pi.powf(-0.25);
                let mut h1 = (2.0f64).sqrt() * x * h0;
                for j in 0..=m {
                    if j == 0 {
                        v.push(h0);
                    } else if j == 1 {
                        v.push(h1);
                    } else {
                        let jf = (j - 1) as f64;
                        let h2 = x * (2.0 / (jf + 1.0)).sqrt() * h1 - (jf / (jf + 1.0)).sqrt() * h0;
                        h0 = h1;
                        h1 = h2;
                        v.push(h2);
                    }
                }
            }
            Family::Laguerre => {
                let (mut l0, mut l1) = (1.0, 1.0 - x);
                for j in 0..=m {
                    if j == 0 {
                        v.push(1.0);
                    } else if j == 1 {
                        v.push(l1);
                    } else {
                        let jf = (j - 1) as f64;
                        let l2 = ((2.0 * jf + 1.0 - x) * l1 - jf * l0) / (jf + 1.0);
                        l0 = l1;
                        l1 = l2;
                        v.push(l2);
                    }
                }
            }
            Family::Chebyshev1 => {
                let th = x.clamp(-1.0, 1.0).acos();
                for j in 0..=m {
                    let t = (j as f64 * th).cos();
                    v.push(if j == 0 { t / pi.sqrt() } else { t * (2.0 / pi).sqrt() });
                }
            }
            Family::Chebyshev2 => {
                let th = x.clamp(-1.0, 1.0).acos();
                let s = th.sin();
                for j in 0..=m {
                    let u = if s.abs() < 1e-8 { (j as f64 + 1.0) * if x > 0.0 || j % 2 == 0 { 1.0 } else { -1.0 } } else { ((j as f64 + 1.0) * th).sin() / s };
                    v.push(u * (2.0 / pi).sqrt());
                }
            }
        }
        v
    }
}

/// cached version of [`gauss_rule_uncached`]
pub fn gauss_rule(f: Family, n: usize) -> std::sync::Arc<(Vec<f64>, Vec<f64>)> {
    use std::collections::HashMap;
    use std::sync::{Arc, Mutex, OnceLock};
    static CACHE: OnceLock<Mutex<HashMap<(usize, usize), Arc<(Vec<f64>, Vec<f64>)>>>> = OnceLock::new();
    let m = CACHE.get_or_init(|| Mutex::new(HashMap::new()));
    if let Some(v) = m.lock().unwrap().get(&(f.index(), n)) {
        return v.clone();
    }
    let v = Arc::new(gauss_rule_uncached(f, n));
    m.lock().unwrap().insert((f.index(), n), v.clone());
    v
}

/// n-point Gauss rule (nodes ascending, weights) computed independently of bacon's tables
pub fn gauss_rule_uncached(f: Family, n: usize) -> (Vec<f64>, Vec<f64>) {
    let pi = std::f64::consts::PI;
    match f {
        Family::Chebyshev1 => {
            let mut x: Vec<f64> = (1..=n).map(|i| ((2 * i - 1) as f64 * pi / (2.0 * n as f64)).cos()).collect();
            x.reverse();
            (x, vec![pi / n as f64; n])
        }
        Family::Chebyshev2 => {
            let mut xw: Vec<(f64, f64)> = (1..=n)
                .map(|i| {
                    let th = i as f64 * pi / (n as f64 + 1.0);
                    (th.cos(), pi / (n as f64 + 1.0) * th.sin().powi(2))
                })
                .collect();
            xw.reverse();
            (xw.iter().map(|p| p.0).collect(), xw.iter().map(|p| p.1).collect())
        }
        _ => {
            // Jacobi matrix: diag alpha_k, offdiag beta_k
            let mut j = DMatrix::<f64>::zeros(n, n);
            for k in 0..n {
                j[(k, k)] = match f {
                    Family::Laguerre => 2.0 * k as f64 + 1.0,
                    _ => 0.0,
                };
                if k + 1 < n {
                    let kk = (k + 1) as f64;
                    let b = match f {
                        Family::Legendre => kk / (4.0 * kk * kk - 1.0).sqrt(),
                        Family::Hermite => (kk / 2.0).sqrt(),
                        _ => kk,
                    };
                    j[(k, k + 1)] = b;
                    j[(k + 1, k)] = b;
                }
            }
            let eig = SymmetricEigen::new(j);
            let mut xw: Vec<(f64, f64)> = (0..n).map(|i| (eig.eigenvalues[i], f.mu0() * eig.eigenvectors[(0, i)].powi(2))).collect();
            xw.sort_by(|a, b| a.0.partial_cmp(&b.0).unwrap());
            let mut x: Vec<f64> = xw.iter().map(|p| p.0).collect();
            let w: Vec<f64> = xw.iter().map(|p| p.1).collect();
            if f != Family::Laguerre {
                // symmetrise (the exact rule is symmetric)
                for i in 0..n / 2 {
                    let m = 0.5 * (x[n - 1 - i] - x[i]);
                    x[i] = -m;
                    x[n - 1 - i] = m;
                }
                if n % 2 == 1 {
                    x[n / 2] = 0.0;
                }
            }
            (x, w)
        }
    }
}

/// tanh-sinh (double exponential) pair at level `l`, index `j`: (weight, abscissa)
pub fn de_pair(l: usize, j: usize) -> (f64, f64) {
    let pi2 = std::f64::consts::FRAC_PI_2;
    let h = 0.5f64.powi(l as i32);
    let t = if l == 0 { (j + 1) as f64 } else { (2 * j + 1) as f64 * h };
    let s = pi2 * t.sinh();
    let w = h * pi2 * t.cosh() / (s.cosh() * s.cosh());
    // 1 - tanh(s) computed without cancellation: 2/(e^{2s}+1)
    let x = 1.0 - 2.0 / ((2.0 * s).exp() + 1.0);
    (w, x)
}

pub const DE_COUNTS: [usize; 7] = [3, 3, 6, 12, 24, 48, 96];

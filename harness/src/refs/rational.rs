//! Exact rationals over i128 with checked arithmetic (overflow = harness error, never a verdict).

#[derive(Clone, Copy, Debug, PartialEq, Eq)]
pub struct Q {
    pub n: i128,
    pub d: i128,
}

fn gcd(mut a: i128, mut b: i128) -> i128 {
    a = a.abs();
    b = b.abs();
    while b != 0 {
        let t = a % b;
        a = b;
        b = t;
    }
    a
}

#[derive(Debug, Clone)]
pub struct Overflow;

impl Q {
    pub fn new(n: i128, d: i128) -> Q {
        assert!(d != 0);
        let g = gcd(n, d).max(1);
        let s = if d < 0 { -1 } else { 1 };
        Q { n: s * n / g, d: s * d / g }
    }
    pub fn int(n: i128) -> Q {
        Q { n, d: 1 }
    }
    pub fn zero() -> Q {
        Q { n: 0, d: 1 }
    }
    pub fn is_zero(&self) -> bool {
        self.n == 0
    }
    pub fn add(self, o: Q) -> Result<Q, Overflow> {
        let g = gcd(self.d, o.d).max(1);
        let l = (self.d / g).checked_mul(o.d).ok_or(Overflow)?;
        let a = self.n.checked_mul(o.d / g).ok_or(Overflow)?;
        let b = o.n.checked_mul(self.d / g).ok_or(Overflow)?;
        Ok(Q::new(a.checked_add(b).ok_or(Overflow)?, l))
    }
    pub fn neg(self) -> Q {
        Q { n: -self.n, d: self.d }
    }
    pub fn sub(self, o: Q) -> Result<Q, Overflow> {
        self.add(o.neg())
    }
    pub fn mul(self, o: Q) -> Result<Q, Overflow> {
        let g1 = gcd(self.n, o.d).max(1);
        let g2 = gcd(o.n, self.d).max(1);
        let n = (self.n / g1).checked_mul(o.n / g2).ok_or(Overflow)?;
        let d = (self.d / g2).checked_mul(o.d / g1).ok_or(Overflow)?;
        Ok(Q::new(n, d))
    }
    pub fn div(self, o: Q) -> Result<Q, Overflow> {
        assert!(o.n != 0);
        self.mul(Q::new(o.d, o.n))
    }
    pub fn to_f64(self) -> f64 {
        // both parts fit in 127 bits; the two conversions and the division are each correctly
        // rounded, total error <= 1.5 ulp
        self.n as f64 / self.d as f64
    }
}

/// Exact coefficient vectors (ascending powers) of classical orthogonal polynomials via the
/// textbook three-term recurrences (Abramowitz & Stegun 22.7).
pub fn orthopoly(family: u8, n: usize) -> Result<Vec<Q>, Overflow> {
    // p0, p1
    let (mut p0, mut p1): (Vec<Q>, Vec<Q>) = match family {
        0 => (vec![Q::int(1)], vec![Q::zero(), Q::int(1)]),            // Legendre P
        1 => (vec![Q::int(1)], vec![Q::zero(), Q::int(2)]),            // Hermite H (physicists)
        2 => (vec![Q::int(1)], vec![Q::int(1), Q::int(-1)]),           // Laguerre L
        3 => (vec![Q::int(1)], vec![Q::zero(), Q::int(1)]),            // Chebyshev T
        _ => (vec![Q::int(1)], vec![Q::zero(), Q::int(2)]),            // Chebyshev U
    };
    if n == 0 {
        return Ok(p0);
    }
    for k in 1..n {
        let kq = Q::int(k as i128);
        // generic form: a_k p_{k+1} = (b_k + c_k x) p_k - d_k p_{k-1}
        let (a, b, c, d) = match family {
            0 => (Q::int(k as i128 + 1), Q::zero(), Q::int(2 * k as i128 + 1), kq),
            1 => (Q::int(1), Q::zero(), Q::int(2), Q::int(2 * k as i128)),
            2 => (Q::int(k as i128 + 1), Q::int(2 * k as i128 + 1), Q::int(-1), kq),
            _ => (Q::int(1), Q::zero(), Q::int(2), Q::int(1)),
        };
        let mut next = vec![Q::zero(); k + 2];
        for (i, &co) in p1.iter().enumerate() {
            next[i] = next[i].add(b.mul(co)?)?;
            next[i + 1] = next[i + 1].add(c.mul(co)?)?;
        }
        for (i, &co) in p0.iter().enumerate() {
            next[i] = next[i].sub(d.mul(co)?)?;
        }
        for v in next.iter_mut() {
            *v = v.div(a)?;
        }
        p0 = p1;
        p1 = next;
    }
    Ok(p1)
}

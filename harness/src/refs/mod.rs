//! Reference implementations used as oracles (written from the literature, independent of bacon).
pub mod num;
pub mod quad;
pub mod rational;

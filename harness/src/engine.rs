//! Generic property-based engine shared by all checks.
//!
//! * deterministic: every random choice is made by proptest strategies seeded from
//!   (VERIF_SEED, property id, shard);
//! * sharded over rayon; the first failing shard stops the others;
//! * failing cases are shrunk by proptest and written as JSON replay files;
//! * evidence (counts, labels, samples) is written on every run;
//! * known findings (committed file, read-only) are matched by signature.

use proptest::strategy::BoxedStrategy;
use proptest::test_runner::{Config, RngAlgorithm, RngSeed, TestCaseError, TestError, TestRunner};
use rayon::prelude::*;
use serde::de::DeserializeOwned;
use serde::Serialize;
use serde_json::{json, Value};
use std::any::Any;
use std::cell::RefCell;
use std::collections::{BTreeMap, HashSet};
use std::panic::{catch_unwind, AssertUnwindSafe};
use std::path::{Path, PathBuf};
use std::sync::atomic::{AtomicBool, Ordering};
use std::sync::Mutex;
use std::time::Instant;

pub const VERIF_ROOT: &str = "/verif";

/// Root for evidence / replays / corpus / known findings. Always /verif for the registered checks; the
/// mutant lab (tools/lab.py) points it at a scratch directory so that experiments cannot clobber evidence.
pub fn verif_root() -> PathBuf {
    std::env::var_os("BVERIF_ROOT").map(PathBuf::from).unwrap_or_else(|| PathBuf::from(VERIF_ROOT))
}

/// Root of the repository under test (run-time data files only; the code is linked at build time).
pub fn repo_root() -> PathBuf {
    std::env::var_os("BVERIF_REPO").map(PathBuf::from).unwrap_or_else(|| PathBuf::from("/repo"))
}

#[derive(Clone, Copy, Debug, PartialEq, Eq)]
pub enum Tier {
    Quick,
    Thorough,
}

impl Tier {
    pub fn name(self) -> &'static str {
        match self {
            Tier::Quick => "quick",
            Tier::Thorough => "thorough",
        }
    }
    pub fn pick<T>(self, quick: T, thorough: T) -> T {
        match self {
            Tier::Quick => quick,
            Tier::Thorough => thorough,
        }
    }
}

#[derive(Clone, Debug)]
pub struct Opts {
    pub prop: String,
    pub tier: Tier,
    pub seed: u64,
    pub replay: Option<PathBuf>,
    /// scale factor on generated case counts (for experiments), default 1.0
    pub scale: f64,
    /// strict replay: known findings are reported as violations too
    pub strict: bool,
}

pub fn parse_args() -> Opts {
    let args: Vec<String> = std::env::args().collect();
    if args.len() < 2 {
        eprintln!("usage: {} <Cxx> [--tier quick|thorough] [--seed N] [--replay file] [--scale f]", args[0]);
        std::process::exit(2);
    }
    let mut o = Opts {
        prop: args[1].clone(),
        tier: match std::env::var("VERIF_TIER").as_deref() {
            Ok("thorough") => Tier::Thorough,
            _ => Tier::Quick,
        },
        seed: std::env::var("VERIF_SEED").ok().and_then(|s| s.trim().parse::<u64>().ok()).unwrap_or(1),
        replay: None,
        scale: std::env::var("VERIF_SCALE").ok().and_then(|s| s.parse().ok()).unwrap_or(1.0),
        strict: false,
    };
    let mut i = 2;
    while i < args.len() {
        match args[i].as_str() {
            "--tier" => {
                i += 1;
                o.tier = if args[i] == "thorough" { Tier::Thorough } else { Tier::Quick };
            }
            "--seed" => {
                i += 1;
                o.seed = args[i].parse().unwrap_or(1);
            }
            "--replay" => {
                i += 1;
                o.replay = Some(PathBuf::from(&args[i]));
            }
            "--scale" => {
                i += 1;
                o.scale = args[i].parse().unwrap_or(1.0);
            }
            "--strict" => o.strict = true,
            other => {
                eprintln!("unknown argument {other}");
                std::process::exit(2);
            }
        }
        i += 1;
    }
    o
}

// ---------------------------------------------------------------------------------------
// panic handling

/// Payload used by harness closures to signal an exhausted evaluation budget.
#[derive(Debug, Clone)]
pub struct Budget(pub &'static str);

#[derive(Debug, Clone)]
pub enum Caught {
    Budget(&'static str),
    Panic(String),
}

thread_local! {
    static LAST_PANIC_LOC: RefCell<String> = RefCell::new(String::new());
}

pub fn install_panic_hook() {
    std::panic::set_hook(Box::new(|info| {
        let loc = info
            .location()
            .map(|l| format!("{}:{}", l.file(), l.line()))
            .unwrap_or_default();
        LAST_PANIC_LOC.with(|c| *c.borrow_mut() = loc);
    }));
}

fn payload_to_caught(p: Box<dyn Any + Send>) -> Caught {
    if let Some(b) = p.downcast_ref::<Budget>() {
        return Caught::Budget(b.0);
    }
    let msg = if let Some(s) = p.downcast_ref::<&str>() {
        s.to_string()
    } else if let Some(s) = p.downcast_ref::<String>() {
        s.clone()
    } else {
        "non-string panic payload".to_string()
    };
    let loc = LAST_PANIC_LOC.with(|c| c.borrow().clone());
    Caught::Panic(format!("{msg} @ {loc}"))
}

/// Run library code; panics (and budget signals) are returned as values.
pub fn guard<T>(f: impl FnOnce() -> T) -> Result<T, Caught> {
    catch_unwind(AssertUnwindSafe(f)).map_err(payload_to_caught)
}

pub fn budget_exceeded(what: &'static str) -> ! {
    std::panic::resume_unwind(Box::new(Budget(what)))
}

// ---------------------------------------------------------------------------------------
// outcomes

#[derive(Clone, Debug)]
pub enum Verdict {
    Pass,
    /// property violated; `sig` identifies the failure for known-finding matching
    Fail { msg: String, sig: Option<String> },
    /// the generated case is outside the property's domain (counted, bounded)
    Discard(String),
}

#[derive(Clone, Debug)]
pub struct Outcome {
    pub verdict: Verdict,
    pub labels: Vec<String>,
    pub nontrivial: bool,
    pub info: Value,
}

impl Outcome {
    pub fn pass() -> Self {
        Outcome { verdict: Verdict::Pass, labels: vec![], nontrivial: false, info: Value::Null }
    }
    pub fn fail(msg: impl Into<String>) -> Self {
        Outcome { verdict: Verdict::Fail { msg: msg.into(), sig: None }, labels: vec![], nontrivial: true, info: Value::Null }
    }
    pub fn fail_sig(msg: impl Into<String>, sig: impl Into<String>) -> Self {
        Outcome {
            verdict: Verdict::Fail { msg: msg.into(), sig: Some(sig.into()) },
            labels: vec![],
            nontrivial: true,
            info: Value::Null,
        }
    }
    pub fn discard(msg: impl Into<String>) -> Self {
        Outcome { verdict: Verdict::Discard(msg.into()), labels: vec![], nontrivial: false, info: Value::Null }
    }
    pub fn label(mut self, l: impl Into<String>) -> Self {
        self.labels.push(l.into());
        self
    }
    pub fn labels<I: IntoIterator<Item = String>>(mut self, l: I) -> Self {
        self.labels.extend(l);
        self
    }
    pub fn nontrivial(mut self, b: bool) -> Self {
        self.nontrivial = b;
        self
    }
    pub fn info(mut self, v: Value) -> Self {
        self.info = v;
        self
    }
    pub fn is_fail(&self) -> bool {
        matches!(self.verdict, Verdict::Fail { .. })
    }
}

/// Small helper to accumulate labels/info while an oracle runs and to fail early.
#[derive(Default, Debug, Clone)]
pub struct Obs {
    pub labels: Vec<String>,
    pub nontrivial: bool,
    pub info: serde_json::Map<String, Value>,
}

impl Obs {
    pub fn new() -> Self {
        Self::default()
    }
    pub fn label(&mut self, l: impl Into<String>) {
        let l = l.into();
        if !self.labels.contains(&l) {
            self.labels.push(l);
        }
    }
    pub fn set(&mut self, k: &str, v: impl Serialize) {
        self.info.insert(k.to_string(), serde_json::to_value(v).unwrap_or(Value::Null));
    }
    pub fn pass(self) -> Outcome {
        Outcome { verdict: Verdict::Pass, labels: self.labels, nontrivial: self.nontrivial, info: Value::Object(self.info) }
    }
    pub fn fail(self, msg: impl Into<String>) -> Outcome {
        Outcome {
            verdict: Verdict::Fail { msg: msg.into(), sig: None },
            labels: self.labels,
            nontrivial: true,
            info: Value::Object(self.info),
        }
    }
    pub fn fail_sig(self, msg: impl Into<String>, sig: impl Into<String>) -> Outcome {
        Outcome {
            verdict: Verdict::Fail { msg: msg.into(), sig: Some(sig.into()) },
            labels: self.labels,
            nontrivial: true,
            info: Value::Object(self.info),
        }
    }
    pub fn discard(self, msg: impl Into<String>) -> Outcome {
        Outcome { verdict: Verdict::Discard(msg.into()), labels: self.labels, nontrivial: false, info: Value::Object(self.info) }
    }
}

// ---------------------------------------------------------------------------------------
// specification of a check

pub struct Spec<C> {
    pub id: &'static str,
    pub level: &'static str,
    pub rule: String,
    pub assumptions: Vec<String>,
    /// deterministic cases run first (also used for exhaustive enumerations)
    pub enumerated: Vec<C>,
    /// name of the finite sub-space(s) completely enumerated, if any
    pub exhaustive: Option<String>,
    /// true if the whole check is an exhaustive enumeration (no generated part needed)
    pub exhaustive_only: bool,
    pub strategy: fn(Tier) -> BoxedStrategy<C>,
    pub cases: u32,
    pub run: fn(&C) -> Outcome,
    /// label -> minimal fraction of *generated* evaluations that must carry it
    pub essential: Vec<(&'static str, f64)>,
    pub max_shrink_iters: u32,
    pub max_discard_frac: f64,
    /// extra evidence produced after the run (e.g. fuzz stage notes)
    pub extra: Value,
}

impl<C> Spec<C> {
    pub fn new(id: &'static str, strategy: fn(Tier) -> BoxedStrategy<C>, run: fn(&C) -> Outcome) -> Self {
        Spec {
            id,
            level: "exploration",
            rule: String::new(),
            assumptions: vec![],
            enumerated: vec![],
            exhaustive: None,
            exhaustive_only: false,
            strategy,
            cases: 0,
            run,
            essential: vec![],
            max_shrink_iters: 400,
            max_discard_frac: 0.2,
            extra: Value::Null,
        }
    }
}

#[derive(Default)]
struct Stats {
    evaluations: u64,
    generated: u64,
    discarded: u64,
    nontrivial: u64,
    excluded_known: u64,
    labels: BTreeMap<String, u64>,
    distinct: HashSet<u64>,
    samples_nt: Vec<Value>,
    samples_tr: Vec<Value>,
    known_hits: BTreeMap<String, (String, u64)>,
    discard_reasons: BTreeMap<String, u64>,
    maxima: BTreeMap<String, f64>,
    /// the case that produced each maximum (written to the evidence so a bound's margin can be inspected)
    argmax: BTreeMap<String, Value>,
}

impl Stats {
    fn merge(&mut self, o: Stats) {
        self.evaluations += o.evaluations;
        self.generated += o.generated;
        self.discarded += o.discarded;
        self.nontrivial += o.nontrivial;
        self.excluded_known += o.excluded_known;
        for (k, v) in o.labels {
            *self.labels.entry(k).or_default() += v;
        }
        self.distinct.extend(o.distinct);
        for s in o.samples_nt {
            if self.samples_nt.len() < 6 {
                self.samples_nt.push(s);
            }
        }
        for s in o.samples_tr {
            if self.samples_tr.len() < 3 {
                self.samples_tr.push(s);
            }
        }
        for (k, (w, n)) in o.known_hits {
            let e = self.known_hits.entry(k).or_insert((w, 0));
            e.1 += n;
        }
        for (k, v) in o.discard_reasons {
            *self.discard_reasons.entry(k).or_default() += v;
        }
        let mut oa = o.argmax;
        for (k, v) in o.maxima {
            let e = self.maxima.entry(k.clone()).or_insert(f64::NEG_INFINITY);
            if v > *e {
                *e = v;
                if let Some(c) = oa.remove(&k) {
                    self.argmax.insert(k, c);
                }
            }
        }
    }
}

fn fnv(s: &str) -> u64 {
    let mut h: u64 = 0xcbf29ce484222325;
    for b in s.bytes() {
        h ^= b as u64;
        h = h.wrapping_mul(0x100000001b3);
    }
    h
}

pub fn mix_seed(seed: u64, id: &str, shard: u64) -> [u8; 32] {
    let mut out = [0u8; 32];
    let mut x = seed ^ fnv(id).rotate_left(17) ^ shard.wrapping_mul(0x9E3779B97F4A7C15);
    for chunk in out.chunks_mut(8) {
        // splitmix64
        x = x.wrapping_add(0x9E3779B97F4A7C15);
        let mut z = x;
        z = (z ^ (z >> 30)).wrapping_mul(0xBF58476D1CE4E5B9);
        z = (z ^ (z >> 27)).wrapping_mul(0x94D049BB133111EB);
        z ^= z >> 31;
        chunk.copy_from_slice(&z.to_le_bytes());
    }
    out
}

// ---------------------------------------------------------------------------------------
// known findings

#[derive(Clone, Debug)]
pub struct KnownFinding {
    pub id: String,
    pub signature: String,
    pub what: String,
}

pub fn load_known(prop: &str) -> Vec<KnownFinding> {
    let path = verif_root().join("known_findings.json");
    let Ok(txt) = std::fs::read_to_string(&path) else { return vec![] };
    let Ok(v) = serde_json::from_str::<Value>(&txt) else {
        eprintln!("known_findings.json is not valid JSON");
        std::process::exit(2);
    };
    let mut out = vec![];
    if let Some(arr) = v.get("findings").and_then(|a| a.as_array()) {
        for e in arr {
            if e.get("kind").and_then(|k| k.as_str()) == Some("known")
                && e.get("property").and_then(|k| k.as_str()) == Some(prop)
            {
                out.push(KnownFinding {
                    id: e.get("id").and_then(|k| k.as_str()).unwrap_or("").to_string(),
                    signature: e.get("signature").and_then(|k| k.as_str()).unwrap_or("").to_string(),
                    what: e.get("what").and_then(|k| k.as_str()).unwrap_or("").to_string(),
                });
            }
        }
    }
    out
}

// ---------------------------------------------------------------------------------------
// running

fn guarded_run<C>(run: fn(&C) -> Outcome, case: &C) -> Outcome {
    match guard(|| run(case)) {
        Ok(o) => o,
        Err(Caught::Budget(w)) => Outcome::fail(format!("evaluation budget exhausted outside a guarded call: {w}")).label("budget"),
        Err(Caught::Panic(m)) => Outcome::fail(format!("panic: {m}")).label("panic"),
    }
}

fn record<C: Serialize>(st: &mut Stats, case: &C, out: &Outcome, generated: bool) {
    st.evaluations += 1;
    if generated {
        st.generated += 1;
    }
    for l in &out.labels {
        *st.labels.entry(l.clone()).or_default() += 1;
    }
    if let (Value::Object(m), false) = (&out.info, out.is_fail()) {
        for (k, v) in m {
            if k.starts_with("ratio") {
                if let Some(x) = v.as_f64() {
                    let e = st.maxima.entry(k.clone()).or_insert(f64::NEG_INFINITY);
                    if x > *e {
                        *e = x;
                        st.argmax.insert(k.clone(), serde_json::to_value(case).unwrap_or(Value::Null));
                    }
                }
            }
        }
    }
    let cj = serde_json::to_value(case).unwrap_or(Value::Null);
    if out.nontrivial {
        st.nontrivial += 1;
        st.distinct.insert(fnv(&cj.to_string()));
    }
    let sample = || json!({"case": cj.clone(), "labels": out.labels, "observed": out.info, "nontrivial": out.nontrivial});
    if out.nontrivial && st.samples_nt.len() < 6 {
        let s = sample();
        st.samples_nt.push(s);
    } else if !out.nontrivial && st.samples_tr.len() < 3 {
        let s = sample();
        st.samples_tr.push(s);
    }
}

struct Failure<C> {
    case: C,
    outcome: Outcome,
    shrunk: bool,
}

pub fn start_watchdog(tier: Tier) {
    let limit = std::env::var("VERIF_WATCHDOG_S")
        .ok()
        .and_then(|s| s.parse::<u64>().ok())
        .unwrap_or(tier.pick(900, 7200));
    std::thread::spawn(move || {
        std::thread::sleep(std::time::Duration::from_secs(limit));
        eprintln!("WATCHDOG: wall-clock limit of {limit}s hit; inconclusive (exit 2)");
        std::process::exit(2);
    });
}

/// Run a check; returns the process exit code.
pub fn run_spec<C>(spec: Spec<C>, opts: &Opts) -> i32
where
    C: Serialize + DeserializeOwned + Clone + std::fmt::Debug + Send + Sync + 'static,
{
    install_panic_hook();
    let known = load_known(spec.id);
    let mut spec = spec;
    if let Ok(extra) = std::env::var("BVERIF_EXTRA") {
        if let Ok(v) = serde_json::from_str::<Value>(&extra) {
            spec.extra = v;
        }
    }

    if let Some(path) = &opts.replay {
        return replay(&spec, opts, path, &known);
    }

    start_watchdog(opts.tier);
    let t0 = Instant::now();
    let mut total = Stats::default();
    let mut failure: Option<Failure<C>> = None;

    let is_known = |o: &Outcome| -> Option<KnownFinding> {
        if opts.strict {
            return None;
        }
        if let Verdict::Fail { sig: Some(s), .. } = &o.verdict {
            known.iter().find(|k| &k.signature == s).cloned()
        } else {
            None
        }
    };

    // 1. committed corpus + enumerated cases (parallel, deterministic order of reporting)
    let mut fixed: Vec<C> = load_corpus::<C>(spec.id);
    let corpus_n = fixed.len();
    fixed.extend(spec.enumerated.iter().cloned());
    let run = spec.run;
    let results: Vec<(usize, Outcome)> = fixed
        .par_iter()
        .enumerate()
        .map(|(i, c)| (i, guarded_run(run, c)))
        .collect();
    for (i, out) in results {
        record(&mut total, &fixed[i], &out, false);
        match &out.verdict {
            Verdict::Fail { .. } => {
                if let Some(k) = is_known(&out) {
                    total.excluded_known += 1;
                    let e = total.known_hits.entry(k.id.clone()).or_insert((k.what.clone(), 0));
                    e.1 += 1;
                } else if failure.is_none() {
                    failure = Some(Failure { case: fixed[i].clone(), outcome: out.clone(), shrunk: false });
                }
            }
            Verdict::Discard(r) => {
                total.discarded += 1;
                *total.discard_reasons.entry(r.clone()).or_default() += 1;
            }
            Verdict::Pass => {}
        }
    }

    // 2. generated cases, sharded
    let n_cases = ((spec.cases as f64) * opts.scale).ceil() as u32;
    if failure.is_none() && n_cases > 0 {
        let shards: u32 = 16.min(n_cases).max(1);
        let stop = AtomicBool::new(false);
        let found: Mutex<Option<Failure<C>>> = Mutex::new(None);
        let per = (n_cases + shards - 1) / shards;
        let shard_stats: Vec<Stats> = (0..shards)
            .into_par_iter()
            .map(|sh| {
                let st = RefCell::new(Stats::default());
                let failed_seen = std::cell::Cell::new(false);
                let cfg = Config {
                    cases: per,
                    failure_persistence: None,
                    rng_seed: RngSeed::Fixed(0),
                    rng_algorithm: RngAlgorithm::ChaCha,
                    max_shrink_iters: spec.max_shrink_iters,
                    max_local_rejects: 1_000_000,
                    max_global_rejects: per.saturating_mul(4).max(4096),
                    ..Config::default()
                };
                let rng = proptest::test_runner::TestRng::from_seed(RngAlgorithm::ChaCha, &mix_seed(opts.seed, spec.id, sh as u64));
                let mut runner = TestRunner::new_with_rng(cfg, rng);
                let strat = (spec.strategy)(opts.tier);
                let res = runner.run(&strat, |case| {
                    if stop.load(Ordering::Relaxed) && !failed_seen.get() {
                        return Ok(());
                    }
                    let out = guarded_run(run, &case);
                    if !failed_seen.get() {
                        record(&mut st.borrow_mut(), &case, &out, true);
                    }
                    match &out.verdict {
                        Verdict::Pass => Ok(()),
                        Verdict::Discard(r) => {
                            if !failed_seen.get() {
                                let mut s = st.borrow_mut();
                                s.discarded += 1;
                                *s.discard_reasons.entry(r.clone()).or_default() += 1;
                            }
                            // counted as an evaluation that decided nothing; not a proptest reject,
                            // so that the discard rate is measured by us and bounded below
                            Ok(())
                        }
                        Verdict::Fail { msg, .. } => {
                            if let Some(k) = is_known(&out) {
                                if !failed_seen.get() {
                                    let mut s = st.borrow_mut();
                                    s.excluded_known += 1;
                                    let e = s.known_hits.entry(k.id.clone()).or_insert((k.what.clone(), 0));
                                    e.1 += 1;
                                }
                                Ok(())
                            } else {
                                failed_seen.set(true);
                                stop.store(true, Ordering::Relaxed);
                                Err(TestCaseError::fail(msg.clone()))
                            }
                        }
                    }
                });
                match res {
                    Ok(()) => {}
                    Err(TestError::Fail(_, case)) => {
                        let out = guarded_run(run, &case);
                        let mut f = found.lock().unwrap();
                        if f.is_none() {
                            *f = Some(Failure { case, outcome: out, shrunk: true });
                        }
                    }
                    Err(TestError::Abort(r)) => {
                        eprintln!("shard {sh}: proptest aborted: {r}");
                        stop.store(true, Ordering::Relaxed);
                        let mut s = st.borrow_mut();
                        *s.discard_reasons.entry(format!("proptest abort: {r}")).or_default() += 1;
                        s.discarded += u64::from(per);
                    }
                }
                st.into_inner()
            })
            .collect();
        for s in shard_stats {
            total.merge(s);
        }
        failure = found.into_inner().unwrap();
        // a shrunk case can stop failing in the rare event of a flaky oracle; re-check
        if let Some(f) = &failure {
            if !f.outcome.is_fail() {
                eprintln!("INTERNAL: shrunk case does not fail on re-run (non-deterministic oracle?)");
                write_evidence(&spec, opts, &total, t0, 0, corpus_n, Some("non-deterministic failure"));
                return 2;
            }
        }
    }

    // 3. verdict
    let wall = t0;
    for (id, (what, n)) in &total.known_hits {
        println!("KNOWN-FINDING: property={} {} [{}; {} case(s) this run]", spec.id, what, id, n);
    }
    if let Some(f) = failure {
        let path = write_replay(&spec, opts, &f);
        write_evidence(&spec, opts, &total, wall, 1, corpus_n, None);
        if let Verdict::Fail { msg, .. } = &f.outcome.verdict {
            println!("failing case ({}): {}", if f.shrunk { "shrunk" } else { "enumerated" }, serde_json::to_string(&f.case).unwrap_or_default());
            println!("reason: {msg}");
        }
        println!("VIOLATION property={} replay={}", spec.id, path.display());
        return 1;
    }

    // generator health
    let mut infra: Option<String> = None;
    if total.evaluations > 0 {
        let frac = total.discarded as f64 / total.evaluations as f64;
        if frac > spec.max_discard_frac {
            infra = Some(format!("discard rate {:.1}% above {:.0}% (reasons: {:?})", 100.0 * frac, 100.0 * spec.max_discard_frac, total.discard_reasons));
        }
    }
    if total.generated > 0 {
        for (l, floor) in &spec.essential {
            let n = total.labels.get(*l).copied().unwrap_or(0);
            if (n as f64) < floor * total.generated as f64 {
                infra = Some(format!("essential label '{l}' seen {n} times in {} generated cases (< {:.1}%)", total.generated, floor * 100.0));
            }
        }
    }
    if total.distinct.len() < 2 {
        infra = Some("fewer than 2 distinct non-trivial cases".to_string());
    }
    write_evidence(&spec, opts, &total, wall, 0, corpus_n, infra.as_deref());
    if let Some(m) = infra {
        eprintln!("GENERATOR-HEALTH: {m} -> inconclusive (exit 2)");
        return 2;
    }
    println!(
        "OK property={} tier={} seed={} evaluations={} distinct_nontrivial={} discarded={} excluded_known={} wall={:.1}s",
        spec.id,
        opts.tier.name(),
        opts.seed,
        total.evaluations,
        total.distinct.len(),
        total.discarded,
        total.excluded_known,
        t0.elapsed().as_secs_f64()
    );
    0
}

fn load_corpus<C: DeserializeOwned>(id: &str) -> Vec<C> {
    let dir = verif_root().join("corpus").join(id);
    let mut files: Vec<PathBuf> = match std::fs::read_dir(&dir) {
        Ok(rd) => rd.filter_map(|e| e.ok().map(|e| e.path())).filter(|p| p.extension().map(|x| x == "json").unwrap_or(false)).collect(),
        Err(_) => return vec![],
    };
    files.sort();
    let mut out = vec![];
    for f in files {
        let Ok(txt) = std::fs::read_to_string(&f) else { continue };
        let Ok(v) = serde_json::from_str::<Value>(&txt) else {
            eprintln!("corpus file {} is not JSON", f.display());
            std::process::exit(2);
        };
        let cv = v.get("case").cloned().unwrap_or(v);
        match serde_json::from_value::<C>(cv) {
            Ok(c) => out.push(c),
            Err(e) => {
                eprintln!("corpus file {} does not match the case type: {e}", f.display());
                std::process::exit(2);
            }
        }
    }
    out
}

fn write_replay<C: Serialize>(spec: &Spec<C>, opts: &Opts, f: &Failure<C>) -> PathBuf {
    let dir = verif_root().join("replays");
    let _ = std::fs::create_dir_all(&dir);
    let path = dir.join(format!("{}-{}-{}.json", spec.id, opts.tier.name(), opts.seed));
    let (msg, sig) = match &f.outcome.verdict {
        Verdict::Fail { msg, sig } => (msg.clone(), sig.clone()),
        _ => (String::new(), None),
    };
    let v = json!({
        "property": spec.id,
        "tier": opts.tier.name(),
        "seed": opts.seed,
        "shrunk": f.shrunk,
        "reason": msg,
        "signature": sig,
        "labels": f.outcome.labels,
        "observed": f.outcome.info,
        "case": f.case,
    });
    let _ = std::fs::write(&path, serde_json::to_string_pretty(&v).unwrap());
    path
}

fn replay<C>(spec: &Spec<C>, opts: &Opts, path: &Path, known: &[KnownFinding]) -> i32
where
    C: Serialize + DeserializeOwned + Clone + std::fmt::Debug,
{
    let txt = match std::fs::read_to_string(path) {
        Ok(t) => t,
        Err(e) => {
            eprintln!("cannot read {}: {e}", path.display());
            return 2;
        }
    };
    let v: Value = match serde_json::from_str(&txt) {
        Ok(v) => v,
        Err(e) => {
            eprintln!("replay file is not JSON: {e}");
            return 2;
        }
    };
    let cv = v.get("case").cloned().unwrap_or(v);
    let case: C = match serde_json::from_value(cv) {
        Ok(c) => c,
        Err(e) => {
            eprintln!("replay file does not match the case type of {}: {e}", spec.id);
            return 2;
        }
    };
    let out = guarded_run(spec.run, &case);
    println!("replay {}: labels={:?}", spec.id, out.labels);
    println!("observed: {}", out.info);
    match &out.verdict {
        Verdict::Pass => {
            println!("PASS");
            0
        }
        Verdict::Discard(r) => {
            println!("DISCARD: {r}");
            0
        }
        Verdict::Fail { msg, sig } => {
            println!("reason: {msg}");
            if !opts.strict {
                if let Some(s) = sig {
                    if let Some(k) = known.iter().find(|k| &k.signature == s) {
                        println!("KNOWN-FINDING: property={} {} [{}]", spec.id, k.what, k.id);
                        return 0;
                    }
                }
            }
            println!("VIOLATION property={} replay={}", spec.id, path.display());
            1
        }
    }
}

fn write_evidence<C>(spec: &Spec<C>, opts: &Opts, st: &Stats, t0: Instant, violations: i64, corpus_n: usize, infra: Option<&str>) {
    let dir = verif_root().join("evidence");
    let _ = std::fs::create_dir_all(&dir);
    let mut samples: Vec<Value> = st.samples_nt.clone();
    samples.extend(st.samples_tr.iter().cloned());
    let labels: BTreeMap<&String, &u64> = st.labels.iter().collect();
    let mut cov = json!({
        "evaluations": st.evaluations,
        "generated": st.generated,
        "enumerated": st.evaluations - st.generated,
        "corpus_replayed": corpus_n,
        "nontrivial": st.nontrivial,
        "distinct_nontrivial": st.distinct.len(),
        "rule": spec.rule,
        "samples": samples,
        "labels": labels,
        "discarded": st.discarded,
        "discard_reasons": st.discard_reasons,
        "excluded_known": st.excluded_known,
        "max_observed_ratios": st.maxima,
        "max_observed_ratio_cases": st.argmax,
        "exhaustive": spec.exhaustive_only,
    });
    if let Some(e) = &spec.exhaustive {
        cov["exhaustive_subspaces"] = json!(e);
    }
    if !spec.extra.is_null() {
        cov["extra"] = spec.extra.clone();
    }
    if let Some(i) = infra {
        cov["inconclusive"] = json!(i);
    }
    let ev = json!({
        "property_id": spec.id,
        "tier": opts.tier.name(),
        "seed": opts.seed,
        "level": spec.level,
        "coverage": cov,
        "assumptions": spec.assumptions,
        "wall_s": t0.elapsed().as_secs_f64(),
        "violations": violations,
    });
    let path = dir.join(format!("{}.json", spec.id));
    if let Err(e) = std::fs::write(&path, serde_json::to_string_pretty(&ev).unwrap()) {
        eprintln!("cannot write evidence {}: {e}", path.display());
    }
}

// ---------------------------------------------------------------------------------------
// strategy helpers (all integer-backed so that shrinking goes to the first/low entries)

pub mod gen {
    use proptest::prelude::*;
    use proptest::strategy::BoxedStrategy;

    /// `n+1` equally spaced values in `[lo, hi]`, shrinking towards `lo`.
    pub fn grid(lo: f64, hi: f64, n: u32) -> BoxedStrategy<f64> {
        (0..=n).prop_map(move |i| lo + (hi - lo) * (i as f64) / (n as f64)).boxed()
    }

    /// uniform in `[lo, hi]` with full mantissa randomness, shrinking towards `lo`
    pub fn unif(lo: f64, hi: f64) -> BoxedStrategy<f64> {
        (0u64..=(1u64 << 53)).prop_map(move |i| lo + (hi - lo) * (i as f64) / ((1u64 << 53) as f64)).boxed()
    }

    /// mix of nice grid values and arbitrary mantissas
    pub fn fl(lo: f64, hi: f64) -> BoxedStrategy<f64> {
        prop_oneof![grid(lo, hi, 64), unif(lo, hi)].boxed()
    }

    /// log-uniform `10^[lo, hi]`, shrinking towards `10^lo`
    pub fn logu(lo: f64, hi: f64) -> BoxedStrategy<f64> {
        (0u32..=4096).prop_map(move |i| 10f64.powf(lo + (hi - lo) * (i as f64) / 4096.0)).boxed()
    }

    /// log-uniform shrinking towards `10^hi`
    pub fn logu_rev(lo: f64, hi: f64) -> BoxedStrategy<f64> {
        (0u32..=4096).prop_map(move |i| 10f64.powf(hi - (hi - lo) * (i as f64) / 4096.0)).boxed()
    }

    /// monotone index map (shrinks to entry 0)
    pub fn index(len: usize) -> BoxedStrategy<usize> {
        (0usize..len.max(1)).boxed()
    }

    pub fn sign() -> BoxedStrategy<f64> {
        prop_oneof![Just(1.0), Just(-1.0)].boxed()
    }
}

// ---------------------------------------------------------------------------------------
// float helpers

pub const EPS: f64 = f64::EPSILON;

pub fn finite_all(v: &[f64]) -> bool {
    v.iter().all(|x| x.is_finite())
}

pub fn next_up(x: f64) -> f64 {
    if x.is_nan() || x == f64::INFINITY {
        return x;
    }
    if x == 0.0 {
        return f64::from_bits(1);
    }
    let b = x.to_bits();
    if x > 0.0 {
        f64::from_bits(b + 1)
    } else {
        f64::from_bits(b - 1)
    }
}

pub fn next_down(x: f64) -> f64 {
    -next_up(-x)
}

pub fn ulp_diff(a: f64, b: f64) -> u64 {
    if a == b {
        return 0;
    }
    if !a.is_finite() || !b.is_finite() {
        return u64::MAX;
    }
    let ord = |x: f64| -> i64 {
        let b = x.to_bits() as i64;
        if b < 0 {
            i64::MIN - b
        } else {
            b
        }
    };
    (ord(a) as i128 - ord(b) as i128).unsigned_abs() as u64
}
